// C01 — decode then encode is lossless outside reserved fields, and a fixed point.
package c01

import (
	"bytes"
	"encoding/json"
	"fmt"
	"regexp"
	"strings"
	"testing"

	"github.com/Eyevinn/mp4ff/mp4"
	"pgregory.net/rapid"

	"verif/internal/boxprop"
	"verif/internal/boxwalk"
	"verif/internal/harness"
)

func TestMain(m *testing.M) { harness.Main(m) }

func init() { harness.RegisterReplay("roundtrip", harness.Replayer(checkRoundTrip)) }

func TestReplay(t *testing.T) { harness.ReplayPath(t) }

type outcome struct {
	accepted  bool
	stats     boxprop.CmpStats
	types     []string
	fileShape bool
}

var last outcome

func encode(d boxprop.Decoded, path string) ([]byte, error) {
	if path == "sr" {
		return boxprop.EncodeSW(d, true, false, -1)
	}
	return boxprop.EncodeW(d, true, false)
}

func checkRoundTrip(c boxprop.Case) *harness.Fail {
	last = outcome{}
	in := c.Bytes()
	if len(in) == 0 {
		return nil
	}
	d1, err := boxprop.Decode(in, c.Level, c.Path)
	if err != nil || d1.Nil() {
		return nil // rejected: no claim
	}
	last.accepted = true
	out1, err := encode(d1, c.Path)
	if err != nil {
		return harness.Failf("C01|encode|error after successful decode: "+errClass(err), "%v (top-level box %q)", err, topType(in))
	}
	if d := boxprop.CompareRoundTrip(in, out1, c.Pristine(), &last.stats); d != nil {
		return harness.Failf(d.Key, "%s", d.Msg)
	}
	// (2) decoding the output again succeeds and yields an equal structure
	d1b, err := boxprop.Decode(in, c.Level, c.Path) // fresh decode of the input (encoding must not have changed d1, but do not rely on it)
	if err != nil {
		return harness.Failf("C01|decode|second decode of the same input fails", "%v", err)
	}
	d2, err := boxprop.Decode(out1, c.Level, c.Path)
	if err != nil || d2.Nil() {
		if err != nil && strings.Contains(err.Error(), "offset from saio") && sencMoved(in, out1) {
			// a box in front of the senc data shrank (64-bit size header written compactly, surplus bytes dropped)
			// and the absolute saio offset, which the library never recomputes outside EncryptFragment, went stale
			return harness.Failf("C01|moof|saio offset stale after a size normalisation in front of senc: output rejected", "%v\n out %s", err, harness.HexTrunc(out1, 200))
		}
		ec := "no structure"
		if err != nil {
			ec = errClass(err)
		}
		return harness.Failf("C01|re-encode|output is rejected by the decoder: "+ec, "%v (top-level box %q)\n out %s", err, topType(in), harness.HexTrunc(out1, 200))
	}
	// positions are compared only when the output is byte-identical to the input (any normalisation,
	// e.g. moov re-ordering or a dropped surplus, moves the boxes that follow)
	opt := boxprop.EqOpt{IgnorePositions: !bytes.Equal(out1, in)}
	var diff string
	if c.Level == "file" && opt.IgnorePositions {
		// the grouping into segments can depend on absolute positions (sidx anchors, tfra offsets), which
		// move when a normalisation changed lengths or order: compare the box trees only
		diff = boxprop.DeepDiff(d1b.File.Children, d2.File.Children, opt)
		last.fileShape = true
		if diff == "" {
			// what does not depend on positions is compared all the same
			diff = fileShapeDiff(d1b.File, d2.File)
		}
	} else if c.Level == "file" {
		diff = boxprop.DeepDiff(d1b.File, d2.File, opt)
	} else {
		diff = boxprop.DeepDiff(d1b.Box, d2.Box, opt)
	}
	if diff != "" {
		return harness.Failf("C01|"+topType(in)+"|decoded structure of the output differs from the decoded input", "%s", diff)
	}
	// (3) fixed point
	out2, err := encode(d2, c.Path)
	if err != nil {
		return harness.Failf("C01|"+topType(in)+"|encode error on the second round", "%v", err)
	}
	if !bytes.Equal(out1, out2) {
		return harness.Failf("C01|"+topType(in)+"|second re-encoding differs from the first (no fixed point)", "len %d vs %d", len(out1), len(out2))
	}
	tree, _ := boxwalk.WalkAll(in)
	for _, b := range boxwalk.Flatten(tree) {
		last.types = append(last.types, b.Type)
	}
	return nil
}

// fileShapeDiff compares the parts of the File grouping that do not depend on absolute positions: the first segment
// starts at the first styp/moof/emsg/prft whatever the indexes say, so the split of the sidx boxes into top-level ones
// and segment ones, the presence of an init segment, of segments and of an mfra box, the number of segments that start
// with a styp box and IsFragmented are the same for two files with equal box trees.
func fileShapeDiff(a, b *mp4.File) string {
	styps := func(f *mp4.File) int {
		n := 0
		for _, s := range f.Segments {
			if s.Styp != nil {
				n++
			}
		}
		return n
	}
	switch {
	case a.IsFragmented() != b.IsFragmented():
		return fmt.Sprintf("File.IsFragmented: %v vs %v", a.IsFragmented(), b.IsFragmented())
	case (a.Init == nil) != (b.Init == nil):
		return fmt.Sprintf("File.Init present: %v vs %v", a.Init != nil, b.Init != nil)
	case (a.Ftyp == nil) != (b.Ftyp == nil) || (a.Moov == nil) != (b.Moov == nil) || (a.Mdat == nil) != (b.Mdat == nil):
		return fmt.Sprintf("File.Ftyp/Moov/Mdat present: %v/%v/%v vs %v/%v/%v", a.Ftyp != nil, a.Moov != nil, a.Mdat != nil, b.Ftyp != nil, b.Moov != nil, b.Mdat != nil)
	case (a.Mfra == nil) != (b.Mfra == nil):
		return fmt.Sprintf("File.Mfra present: %v vs %v", a.Mfra != nil, b.Mfra != nil)
	case (a.Sidx == nil) != (b.Sidx == nil) || len(a.Sidxs) != len(b.Sidxs):
		return fmt.Sprintf("File.Sidxs: %d vs %d top-level sidx boxes", len(a.Sidxs), len(b.Sidxs))
	case (len(a.Segments) == 0) != (len(b.Segments) == 0):
		return fmt.Sprintf("File.Segments: %d vs %d", len(a.Segments), len(b.Segments))
	case styps(a) != styps(b):
		return fmt.Sprintf("File.Segments starting with styp: %d vs %d", styps(a), styps(b))
	}
	return ""
}

func topType(in []byte) string {
	if len(in) >= 8 {
		out := []byte(in[4:8])
		for i, b := range out {
			if b < 0x20 || b > 0x7e {
				out[i] = '?'
			}
		}
		return string(out)
	}
	return "?"
}

var digits = regexp.MustCompile(`[0-9]+`)

// sencMoved reports whether some senc box lies at another distance from the start of its moof in the output than
// in the input: a box in front of it was re-encoded with another length (64-bit size header written compactly,
// surplus bytes of a non-pristine box dropped), which is what makes an absolute saio offset go stale.
func sencMoved(in, out []byte) bool {
	dist := func(data []byte) []int {
		tree, _ := boxwalk.WalkAll(data)
		var d []int
		for _, b := range boxwalk.Flatten(tree) {
			if b.Type != "moof" {
				continue
			}
			for _, s := range boxwalk.Flatten([]*boxwalk.Box{b}) {
				if s.Type == "senc" || s.Type == "uuid" {
					d = append(d, s.PayloadStart()-b.Start)
				}
			}
		}
		return d
	}
	a, b := dist(in), dist(out)
	if len(a) != len(b) {
		return true
	}
	for i := range a {
		if a[i] != b[i] {
			return true
		}
	}
	return false
}

func errClass(err error) string {
	s := err.Error()
	if i := strings.LastIndex(s, ": "); i >= 0 {
		s = s[i+2:]
	}
	return digits.ReplaceAllString(s, "N")
}

func run(t *testing.T, name string, cfg boxprop.GenConfig) {
	harness.RunRapid(t, name, func(rt *rapid.T) {
		c := boxprop.Gen(rt, cfg)
		raw, _ := json.Marshal(c)
		f := harness.Guarded(func() *harness.Fail { return checkRoundTrip(c) })
		cls := []string{"level-" + c.Level, "path-" + c.Path, "seedkind-" + c.SeedKind()}
		if c.Synth != nil {
			cls = append(cls, "synth", "synth-"+c.Origin)
		}
		if last.accepted {
			cls = append(cls, "accepted")
			if c.Pristine() {
				cls = append(cls, "accepted-pristine")
			} else {
				cls = append(cls, "accepted-mutated")
			}
		} else {
			cls = append(cls, "rejected")
		}
		if last.stats.Surplus > 0 {
			cls = append(cls, "c01-surplus-dropped")
		}
		if last.stats.LargeToSmall > 0 {
			cls = append(cls, "c01-largesize-normalised")
		}
		if last.stats.MoovReorder > 0 {
			cls = append(cls, "c01-moov-reordered")
		}
		if last.stats.Malformed > 0 {
			cls = append(cls, "c01-accepted-input-with-inconsistent-sizes(no byte claim)")
		}
		if last.stats.NotCovered > 0 {
			cls = append(cls, "c01-accepted-input-not-covered-by-walker(no byte claim)")
		}
		if last.stats.MoovOrderChk > 0 {
			cls = append(cls, "c01-moov-relative-order-judged")
		}
		if last.fileShape {
			cls = append(cls, "c01-file-shape-compared(output differs)")
		}
		if last.stats.MaskedBytes > 0 {
			cls = append(cls, "c01-masked-bytes-differ")
		}
		seen := map[string]bool{}
		for _, ty := range last.types {
			if !seen[ty] {
				seen[ty] = true
				cls = append(cls, "type-"+ty)
			}
		}
		nt := last.accepted && len(last.types) > 0 && (!c.Pristine() || c.Synth != nil)
		harness.Rec.Case(nt, raw, cls...)
		if nt && harness.Rec.WantSample() && len(raw) < 500 {
			harness.Rec.Sample(map[string]interface{}{"kind": "roundtrip", "case": c, "input": fmt.Sprintf("%s", harness.HexTrunc(c.Bytes(), 80))})
		}
		if f != nil {
			c.Data = c.Bytes()
			if len(c.Data) > 64<<10 {
				c.Data = nil
			}
		}
		harness.Report(rt, "roundtrip", c, f)
	})
}

// TestPristine: every harvested box and file, unmodified, strict comparison.
func TestPristine(t *testing.T) {
	run(t, "pristine", boxprop.GenConfig{MaxSeed: 300 << 10})
}

// TestFieldMutations: size-preserving field mutations (values, versions, flags, counts).
func TestFieldMutations(t *testing.T) {
	run(t, "fields", boxprop.GenConfig{MaxSeed: harness.Pick(64<<10, 300<<10), Mutate: true, FieldOnly: true})
}

// TestStructureMutations: all structure-aware mutations.
func TestStructureMutations(t *testing.T) {
	run(t, "structure", boxprop.GenConfig{MaxSeed: harness.Pick(64<<10, 300<<10), Mutate: true})
}

// TestSynth: boxes and files written by the grammar generator internal/boxgen (legal field combinations no
// harvested file has), unmodified; TestSynthMutated: the same with field mutations on top.
func TestSynth(t *testing.T) { run(t, "synth", boxprop.GenConfig{MaxSeed: 300 << 10, SynthPct: 100}) }
func TestSynthMutated(t *testing.T) {
	run(t, "synthmut", boxprop.GenConfig{MaxSeed: 300 << 10, SynthPct: 100, Mutate: true, FieldOnly: true})
}
