package c03

// Leg "api": clause A ("Encode and EncodeSW produce identical bytes, or both fail, for the same structure") over
// structures BUILT THROUGH THE PUBLIC CONSTRUCTORS, which no decoded leg reaches (e.g. an mdat box holding data parts
// exists only after Fragment.AddSampleInterval). The recipes and the builder are those of the C02 api leg
// (internal/apigen): init segments, fragments in every Add... mode, media segments, fragmented files through AddChild /
// AddMediaSegment, progressive files and every single-box builder. Building is a pure function of the recipe, so every
// encoding below works on a FRESH structure:
//
//	for every encode mode the structure has ({no optimisation, OptimizeTrun} x, for fragmented files, {segment, box tree}):
//	  build twice; Encode the first, EncodeSW the second (buffer of Size() bytes taken after the mode is set)
//	  -> identical bytes, or both fail
//	the bytes of the first mode are then handed to both decoders (clause B through checkInterchange: a string one
//	path reproduces is accepted by the other with a deep-equal structure, incl. the segment/fragment grouping)

import (
	"bytes"
	"encoding/json"
	"errors"
	"fmt"
	"sort"
	"testing"

	"pgregory.net/rapid"

	"verif/internal/apigen"
	"verif/internal/boxprop"
	"verif/internal/boxwalk"
	"verif/internal/harness"
)

func init() { harness.RegisterReplay("api-interchange", harness.Replayer(checkAPIInterchange)) }

type apiCase struct {
	Recipe apigen.Case `json:"recipe"`
	Path   string      `json:"path"` // decoder path that clause B starts from: reader | sr
}

type apiOutcome struct {
	classes  map[string]bool
	nBoxes   int
	encoded  bool
	rejected bool
}

var lastAPI apiOutcome

func (o *apiOutcome) class(s string) {
	if o.classes == nil {
		o.classes = map[string]bool{}
	}
	o.classes[s] = true
}

// encMode: one way of encoding the structure of a recipe.
type encMode struct {
	opt     bool
	boxTree int // -1: not a fragmented file; 0 segment mode; 1 box-tree mode
}

func (m encMode) String() string {
	s := fmt.Sprintf("optimize=%v", m.opt)
	switch m.boxTree {
	case 0:
		s += " segment-mode"
	case 1:
		s += " box-tree-mode"
	}
	return s
}

// withMode returns the recipe with the encode mode written into it (the file recipe is copied, not shared).
func withMode(r apigen.Case, m encMode) apigen.Case {
	r.Opt = m.opt
	if r.File != nil && m.boxTree >= 0 {
		f := *r.File
		f.BoxTree = m.boxTree == 1
		r.File = &f
	}
	return r
}

func checkAPIInterchange(c apiCase) *harness.Fail {
	lastAPI = apiOutcome{}
	o := &lastAPI
	probe, err := apigen.Build(&c.Recipe, &apigen.Stats{})
	if err != nil {
		var rj apigen.RejectedError
		if errors.As(err, &rj) {
			o.rejected = true
			o.class("api-build-rejected")
			return nil
		}
		return harness.Failf("harness|c03api|bad-case", "%v", err)
	}
	modes := []encMode{{false, -1}}
	if probe.SetOpt != nil {
		modes = append(modes, encMode{true, -1})
	}
	if c.Recipe.Kind == "file-frag" && c.Recipe.File != nil {
		modes = modes[:0]
		for _, bt := range []int{0, 1} {
			for _, opt := range []bool{false, true} {
				modes = append(modes, encMode{opt, bt})
			}
		}
		// the mode of the recipe comes first (its bytes go to the decoders)
		if c.Recipe.File.BoxTree {
			modes[0], modes[2] = modes[2], modes[0]
		}
	}
	var first []byte
	for mi, m := range modes {
		r := withMode(c.Recipe, m)
		var ts [2]*apigen.Target
		for i := range ts {
			t, err := apigen.Build(&r, &apigen.Stats{})
			if err != nil {
				return harness.Failf("harness|c03api|bad-case", "recipe builds once and not again (%s): %v", m, err)
			}
			if m.opt && t.SetOpt != nil {
				t.SetOpt()
			}
			ts[i] = t
		}
		what := ts[0].What
		var buf bytes.Buffer
		errW := ts[0].Enc(&buf)
		size := ts[1].Size()
		if size > 4<<20 {
			return harness.Failf("C02|"+what+"|Size() far beyond anything the structure can encode to", "%s: Size() %d", m, size)
		}
		sw := boxprop.DirtySW(int(size))
		errS := ts[1].EncSW(sw)
		if errS == nil {
			errS = sw.AccError()
		}
		switch {
		case m.opt:
			o.class("A-opt")
		}
		switch m.boxTree {
		case 0:
			o.class("A-segment")
		case 1:
			o.class("A-boxtree")
		}
		if (errW == nil) != (errS == nil) {
			return harness.Failf("C03|api:"+what+"|one encoder fails and the other succeeds", "%s: Encode: %v, EncodeSW: %v", m, errW, errS)
		}
		if errW != nil {
			o.class("A-both-encoders-fail")
			continue
		}
		if !bytes.Equal(buf.Bytes(), sw.Bytes()) {
			return harness.Failf("C03|api:"+what+"|Encode and EncodeSW bytes differ", "%s: %d vs %d bytes%s", m, buf.Len(), sw.Len(), firstDiff(buf.Bytes(), sw.Bytes()))
		}
		o.class("A-identical")
		if mi == 0 {
			first = append([]byte{}, buf.Bytes()...)
		}
	}
	if first == nil {
		return nil
	}
	o.encoded = true
	tree, _ := boxwalk.WalkAll(first)
	o.nBoxes = len(boxwalk.Flatten(tree))
	// ---- the bytes through both decoders (and the decoded structures through both encoders once more)
	level := "file"
	if c.Recipe.Kind == "box" {
		level = "box"
	}
	saved := last
	f := checkInterchange(boxprop.Case{Box: -1, Level: level, Path: c.Path, Data: first, Opt: true})
	switch {
	case last.canonical:
		o.class("api-output-canonical-crossed")
	case last.accepted:
		o.class("api-output-accepted-not-canonical")
	default:
		o.class("api-output-rejected-by-decoder")
	}
	if last.boxFileCrossed {
		o.class("boxfile-crossed")
	}
	last = saved
	if f != nil {
		f.Msg = fmt.Sprintf("output of the API-built %s (%d bytes) at %s level: %s", probe.What, len(first), level, f.Msg)
	}
	return f
}

func TestAPI(t *testing.T) {
	harness.RunRapid(t, "api", func(rt *rapid.T) {
		c := apiCase{Recipe: apigen.Gen(rt), Path: rapid.SampledFrom([]string{"reader", "sr"}).Draw(rt, "path")}
		raw, _ := json.Marshal(c)
		f := harness.Guarded(func() *harness.Fail { return checkAPIInterchange(c) })
		o := lastAPI
		cl := append(apigen.Classify(&c.Recipe), "path-"+c.Path)
		dyn := make([]string, 0, len(o.classes))
		for k := range o.classes {
			dyn = append(dyn, k)
		}
		sort.Strings(dyn)
		cl = append(cl, dyn...)
		nt := o.encoded && o.nBoxes >= 3
		harness.Rec.Case(nt, raw, cl...)
		if nt && harness.Rec.WantSample() && len(raw) < 3000 {
			harness.Rec.Sample(map[string]interface{}{"kind": "api-interchange", "case": c})
		}
		// one case in 16: the JSON form of the case gives the same verdict (replay files reproduce what was seen)
		if harness.Hash(raw)%16 == 0 {
			f2 := harness.Guarded(func() *harness.Fail { return harness.Replayer(checkAPIInterchange)(raw) })
			if (f == nil) != (f2 == nil) || (f != nil && f.Key != f2.Key) {
				rt.Fatalf("harness|replay-inconsistent: direct verdict %v, verdict on the JSON round trip %v", f, f2)
			}
		}
		harness.Report(rt, "api-interchange", c, f)
	})
}
