package c03

// TestCountSweep: a deterministic sweep over (box type, instance, count field position, boundary value). The two
// decode paths validate entry counts separately (32- vs 64-bit arithmetic, signed vs unsigned comparisons); a count
// such as 0x80000000 that only one of them lets through is out of reach for random mutation within the quick budget.
// Every leaf type the grammar generator knows is instantiated a number of times; the 32-bit field at payload offset
// 4, 8 or 12 is overwritten with each value of a fixed list; the usual interchange oracle judges the result.

import (
	"fmt"
	"testing"

	"pgregory.net/rapid"

	"verif/internal/boxgen"
	"verif/internal/boxmut"
	"verif/internal/boxprop"
	"verif/internal/harness"
)

var sweepCounts = []uint64{0, 1, 2, 0xff, 0x100, 0xffff, 0x10000, 0xffffff, 0x1000000, 0x7fffffff, 0x80000000, 0x80000001, 0xfffffffe, 0xffffffff}

func TestCountSweep(t *testing.T) {
	types := boxgen.LeafTypes()
	instances := harness.Pick(6, 30)
	bad := 0
	for ti, typ := range types {
		if ti%harness.E.NShards != harness.E.Shard {
			continue
		}
		typ := typ
		gen := rapid.Custom(func(rt *rapid.T) []byte { return boxgen.Box(rt, typ, boxgen.Opt{}) })
		crossed := 0
		n := int64(0)
		for i := 0; i < instances; i++ {
			base := gen.Example(i)
			for _, off := range []int{4, 8, 12} {
				if len(base) < 8+off+4 {
					continue
				}
				for _, v := range sweepCounts {
					for _, path := range []string{"reader", "sr"} {
						c := boxprop.Case{Box: -1, Level: "box", Path: path, Synth: base, Origin: "box:" + typ,
							Muts: []boxmut.Mut{{Op: "count", Box: 0, Off: off, Val: v}}}
						f := harness.Guarded(func() *harness.Fail { return checkInterchange(c) })
						n++
						if last.canonical {
							crossed++
						}
						if f != nil && harness.ReportDirect(t, "interchange", c, f) {
							bad++
						}
						if bad > 5 {
							return
						}
					}
				}
			}
		}
		harness.Rec.BulkDistinct(n, int64(crossed), "countsweep-"+typ)
		if harness.Rec.WantSample() {
			harness.Rec.Sample(map[string]interface{}{"kind": "countsweep", "type": typ, "instances": instances, "cases": n, "canonical-strings-crossed": crossed})
		}
	}
	harness.Rec.Exhaustive(fmt.Sprintf("count sweep: %d leaf types x %d grammar instances x 32-bit field at payload offset 4/8/12 x %d boundary values x {reader, sr}", len(types), instances, len(sweepCounts)))
}
