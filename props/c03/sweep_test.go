package c03

// TestCountSweep: a deterministic sweep over (box type, instance, count field position, boundary value). The two
// decode paths validate entry counts separately (32- vs 64-bit arithmetic, signed vs unsigned comparisons); a count
// such as 0x80000000 that only one of them lets through is out of reach for random mutation within the quick budget.
// Every leaf type the grammar generator knows is instantiated a number of times; the 32-bit field at payload offset
// 4, 8 or 12 is overwritten with each value of a fixed list; the usual interchange oracle judges the result.
//
// Second phase (width-aware): the count and length fields that are not 32 bits wide or do not sit at payload offset
// 4, 8 or 12 (fieldsOf: offsets derived from the ISO/IEC 14496-12 / -15 / -1, 23001-7, ETSI TS 102 366 and VP-ISOBMFF
// layouts, depending on version and flags of the instance) are overwritten with boundary values of their own width.
// The table is checked against every legal instance: count x minimal entry size fits into what follows the field.
//
// TestFileSizeSweep: the same idea one level up. For whole files written by the grammar generator the size field of each
// top-level box is overwritten with {0, 1, 7, 8, size-1, size+1, 0xffffffff}; mdat, moof and sidx boxes are given 64-bit
// size headers (correct, and claiming boundary values); the interchange oracle judges the result at file level.

import (
	"bytes"
	"fmt"
	"testing"

	"pgregory.net/rapid"

	"verif/internal/boxgen"
	"verif/internal/boxmut"
	"verif/internal/boxprop"
	"verif/internal/boxwalk"
	"verif/internal/harness"
)

var sweepCounts = []uint64{0, 1, 2, 0xff, 0x100, 0xffff, 0x10000, 0xffffff, 0x1000000, 0x7fffffff, 0x80000000, 0x80000001, 0xfffffffe, 0xffffffff}

// field: one count / length field of a box payload. unit > 0: the field counts entries of at least unit bytes that
// follow it (mask selects the bits of the field that make up the count): used to check the table against the instance.
type field struct {
	off, width int
	unit       int
	mask       uint64
	name       string
}

func be(p []byte, off, width int) uint64 {
	v := uint64(0)
	for i := 0; i < width; i++ {
		v = v<<8 | uint64(p[off+i])
	}
	return v
}

var tfrfUUID = []byte{0xd4, 0x80, 0x7e, 0xf2, 0xca, 0x39, 0x46, 0x95, 0x8e, 0x54, 0x26, 0xcb, 0x9e, 0x46, 0xa7, 0x9f}

// descriptorLengths walks the MPEG-4 descriptors (14496-1 8.3.3: tag, then 1..4 length bytes of 7 bits with a
// continuation bit) starting at pos and returns the last and, when there are several, the first byte of every length
// field; it descends into ES_Descriptor (3) and DecoderConfigDescriptor (4).
func descriptorLengths(p []byte, pos, end int, out *[]field) {
	for pos+2 <= end {
		tag := p[pos]
		l, n := 0, 0
		for n < 4 && pos+1+n < end {
			b := p[pos+1+n]
			l = l<<7 | int(b&0x7f)
			n++
			if b&0x80 == 0 {
				break
			}
		}
		*out = append(*out, field{off: pos + n, width: 1, unit: 1, mask: 0x7f, name: fmt.Sprintf("descriptor %d length (last byte)", tag)})
		if n > 1 {
			*out = append(*out, field{off: pos + 1, width: 1, name: fmt.Sprintf("descriptor %d length (first byte)", tag)})
		}
		body := pos + 1 + n
		bend := body + l
		if bend > end {
			bend = end
		}
		switch tag {
		case 3:
			if body+3 <= bend {
				fl := p[body+2]
				q := body + 3
				if fl&0x80 != 0 {
					q += 2
				}
				if fl&0x40 != 0 && q < bend {
					q += 1 + int(p[q])
				}
				if fl&0x20 != 0 {
					q += 2
				}
				descriptorLengths(p, q, bend, out)
			}
		case 4:
			descriptorLengths(p, body+13, bend, out)
		}
		pos = bend
	}
}

// fieldsOf lists the count/length fields of the payload p of a box of the given type (usertype: the 16 bytes of a uuid box).
func fieldsOf(typ string, usertype, p []byte) []field {
	if len(p) < 4 {
		return nil
	}
	ver, flags := p[0], be(p, 1, 3)
	var out []field
	switch typ {
	case "sidx": // 8.16.3: reference_ID, timescale, EPT and first_offset (32 or 64 bit), reserved(16), reference_count(16)
		off := 22
		if ver >= 1 {
			off = 30
		}
		out = append(out, field{off: off, width: 2, unit: 12, name: "reference_count"}, field{off: off - 2, width: 2, name: "reserved"})
	case "saiz": // 8.7.8: [aux_info_type, aux_info_type_parameter], default_sample_info_size(8), sample_count(32)
		base := 4
		if flags&1 != 0 {
			base = 12
		}
		out = append(out, field{off: base, width: 1, name: "default_sample_info_size"})
		if len(p) > base && p[base] == 0 {
			out = append(out, field{off: base + 1, width: 4, unit: 1, name: "sample_count"})
		} else {
			out = append(out, field{off: base + 1, width: 4, name: "sample_count"})
		}
	case "saio": // 8.7.9
		base, unit := 4, 4
		if flags&1 != 0 {
			base = 12
		}
		if ver >= 1 {
			unit = 8
		}
		out = append(out, field{off: base, width: 4, unit: unit, name: "entry_count"})
	case "pssh": // 23001-7 8.1: SystemID(16), version>0: KID_count(32) + KIDs, DataSize(32)
		if ver == 0 {
			out = append(out, field{off: 20, width: 4, unit: 1, name: "DataSize"})
		} else if len(p) >= 24 {
			n := int(be(p, 20, 4))
			out = append(out, field{off: 20, width: 4, unit: 16, name: "KID_count"}, field{off: 24 + 16*n, width: 4, unit: 1, name: "DataSize"})
		}
	case "sgpd": // 8.9.3: grouping_type, version>=1 default_length, version>=2 default_group_description_index, entry_count
		switch {
		case ver == 0:
			out = append(out, field{off: 8, width: 4, unit: 1, name: "entry_count"})
		case len(p) >= 12:
			unit := int(be(p, 8, 4))
			if unit == 0 {
				unit = 4 // every entry starts with its description_length
			}
			cnt := 12
			if ver >= 2 {
				cnt = 16
				out = append(out, field{off: 12, width: 4, name: "default_group_description_index"})
			}
			out = append(out, field{off: 8, width: 4, name: "default_length"}, field{off: cnt, width: 4, unit: unit, name: "entry_count"})
		}
	case "hvcC": // 14496-15 8.3.3.1.2: 22 bytes of fixed fields, numOfArrays(8); per array: type(8), numNalus(16), {nalUnitLength(16), NAL unit}
		out = append(out, field{off: 22, width: 1, unit: 3, name: "numOfArrays"})
		if len(p) > 22 && p[22] > 0 {
			out = append(out, field{off: 24, width: 2, unit: 2, name: "numNalus"})
			if len(p) >= 26 && be(p, 24, 2) > 0 {
				out = append(out, field{off: 26, width: 2, unit: 1, name: "nalUnitLength"})
			}
		}
	case "avcC": // 14496-15 5.3.3.1.2: 4 bytes, reserved(6)+lengthSizeMinusOne(2), reserved(3)+numOfSPS(5), {length(16), SPS}, numOfPPS(8), {length(16), PPS}
		out = append(out, field{off: 4, width: 1, name: "lengthSizeMinusOne"}, field{off: 5, width: 1, unit: 2, mask: 0x1f, name: "numOfSequenceParameterSets"})
		if len(p) < 6 {
			break
		}
		pos := 6
		for i := 0; i < int(p[5]&0x1f) && pos+2 <= len(p); i++ {
			if i == 0 {
				out = append(out, field{off: pos, width: 2, unit: 1, name: "sequenceParameterSetLength"})
			}
			pos += 2 + int(be(p, pos, 2))
		}
		if pos < len(p) {
			out = append(out, field{off: pos, width: 1, unit: 2, name: "numOfPictureParameterSets"})
			if p[pos] > 0 {
				out = append(out, field{off: pos + 1, width: 2, unit: 1, name: "pictureParameterSetLength"})
			}
		}
	case "subs": // 8.7.7: entry_count(32); per entry sample_delta(32), subsample_count(16), subsamples of 6 (version 1: 8) bytes
		unit := 6
		if ver == 1 {
			unit = 8
		}
		if len(p) >= 8 && be(p, 4, 4) > 0 {
			out = append(out, field{off: 12, width: 2, unit: unit, name: "subsample_count"})
		}
	case "uuid":
		if bytes.Equal(usertype, tfrfUUID) { // MS-SSTR 2.2.4.5 TfrfBox: fragment_count(8), then absolute time + duration (32 or 64 bit each)
			unit := 8
			if ver == 1 {
				unit = 16
			}
			out = append(out, field{off: 4, width: 1, unit: unit, name: "tfrf fragment_count"})
		}
	case "esds": // 14496-14 5.6: ES_Descriptor behind version/flags
		descriptorLengths(p, 4, len(p), &out)
	case "stz2": // 8.7.3.3: reserved(24), field_size(8), sample_count(32)
		out = append(out, field{off: 7, width: 1, name: "field_size"})
	case "leva": // 8.8.13: level_count(8); per level track_id(32), padding_flag+assignment_type(8), 0..8 more bytes
		out = append(out, field{off: 4, width: 1, unit: 5, name: "level_count"})
	case "tlou", "alou": // 12.2.7: version>=1: reserved(2)+loudness_base_count(6); per base [EQ(8)], ids(16), peaks(24), system+reliability(8), measurement_count(8), measurements of 3 bytes
		if ver == 0 {
			out = append(out, field{off: 10, width: 1, unit: 3, name: "measurement_count"})
		} else {
			out = append(out, field{off: 4, width: 1, unit: 8, mask: 0x3f, name: "loudness_base_count"})
			if len(p) > 4 && p[4]&0x3f > 0 {
				out = append(out, field{off: 12, width: 1, unit: 3, name: "measurement_count"})
			}
		}
	case "dec3": // ETSI TS 102 366 F.6: data_rate(13)+num_ind_sub(3); per independent substream 3 or 4 bytes
		out = append(out, field{off: 0, width: 2, name: "data_rate+num_ind_sub"}, field{off: 1, width: 1, unit: 3, mask: 7, name: "num_ind_sub"})
	case "vpcC": // VP-ISOBMFF: profile, level, bitDepth.., primaries, transfer, matrix, codecInitializationDataSize(16)
		out = append(out, field{off: 10, width: 2, unit: 1, name: "codecInitializationDataSize"})
	case "ssix": // 8.16.4: subsegment_count(32); per subsegment range_count(32), {level(8), range_size(24)}
		if len(p) >= 12 && be(p, 4, 4) > 0 && be(p, 8, 4) > 0 {
			out = append(out, field{off: 12, width: 1, name: "level"}, field{off: 13, width: 3, name: "range_size"})
		}
	case "trun": // 8.8.8: sample_count(32), [data_offset], [first_sample_flags], samples: the 16 bits of sample_count halves
		out = append(out, field{off: 4, width: 2, name: "sample_count (high half)"}, field{off: 6, width: 2, unit: 0, name: "sample_count (low half)"})
	}
	var fit []field
	for _, f := range out {
		if f.off >= 0 && f.off+f.width <= len(p) {
			fit = append(fit, f)
		}
	}
	return fit
}

// boundary values of a field of the given width in bytes
func fieldValues(width int) []uint64 {
	if width == 4 {
		return sweepCounts
	}
	top := uint64(1) << uint(8*width)
	vals := []uint64{0, 1, 2, top/2 - 1, top / 2, top - 2, top - 1}
	if width >= 2 {
		vals = append(vals, 0xff, 0x100)
	}
	if width == 1 {
		vals = append(vals, 0x1f, 0x20, 0x3f, 0x40)
	}
	return vals
}

// sweepTypes: every leaf type plus the counted containers (entry_count at payload offset 4).
func sweepTypes() []string { return append(boxgen.LeafTypes(), "stsd", "dref") }

func TestCountSweep(t *testing.T) {
	types := sweepTypes()
	instances := harness.Pick(6, 30)
	bad := 0
	for ti, typ := range types {
		if ti%harness.E.NShards != harness.E.Shard {
			continue
		}
		typ := typ
		gen := rapid.Custom(func(rt *rapid.T) []byte { return boxgen.Box(rt, typ, boxgen.Opt{}) })
		crossed := 0
		n := int64(0)
		for i := 0; i < instances; i++ {
			base := gen.Example(i)
			for _, off := range []int{4, 8, 12} {
				if len(base) < 8+off+4 {
					continue
				}
				for _, v := range sweepCounts {
					for _, path := range []string{"reader", "sr"} {
						c := boxprop.Case{Box: -1, Level: "box", Path: path, Synth: base, Origin: "box:" + typ,
							Muts: []boxmut.Mut{{Op: "count", Box: 0, Off: off, Val: v}}}
						f := harness.Guarded(func() *harness.Fail { return checkInterchange(c) })
						n++
						if last.canonical {
							crossed++
						}
						if f != nil && harness.ReportDirect(t, "interchange", c, f) {
							bad++
						}
						if bad > 5 {
							return
						}
					}
				}
			}
		}
		harness.Rec.BulkDistinct(n, int64(crossed), "countsweep-"+typ)
		// ---- width-aware fields
		crossed, n = 0, 0
		fieldsSeen := map[string]bool{}
		for i := 0; i < instances; i++ {
			base := gen.Example(i)
			tree, err := boxwalk.WalkAll(base)
			if err != nil || len(tree) != 1 {
				continue
			}
			b := tree[0]
			p := base[b.PayloadStart():b.End()]
			var usertype []byte
			if typ == "uuid" {
				usertype = base[b.PayloadStart()-16 : b.PayloadStart()]
			}
			for _, fd := range fieldsOf(typ, usertype, p) {
				if fd.unit > 0 {
					v := be(p, fd.off, fd.width)
					if fd.mask != 0 {
						v &= fd.mask
					}
					if v*uint64(fd.unit) > uint64(len(p)-fd.off-fd.width) {
						harness.ReportDirect(t, "interchange", boxprop.Case{Box: -1, Level: "box", Path: "sr", Synth: base, Origin: "box:" + typ},
							harness.Failf("harness|c03sweep|field table does not match a legal instance", "%s %s at payload offset %d width %d: value %d x %d bytes does not fit into the %d bytes behind it", typ, fd.name, fd.off, fd.width, v, fd.unit, len(p)-fd.off-fd.width))
						return
					}
				}
				fieldsSeen[fd.name] = true
				for _, v := range fieldValues(fd.width) {
					for _, path := range []string{"reader", "sr"} {
						c := boxprop.Case{Box: -1, Level: "box", Path: path, Synth: base, Origin: "box:" + typ,
							Muts: []boxmut.Mut{{Op: "payload", Box: 0, Off: fd.off, N: fd.width, Val: v}}}
						f := harness.Guarded(func() *harness.Fail { return checkInterchange(c) })
						n++
						if last.canonical {
							crossed++
						}
						if f != nil && harness.ReportDirect(t, "interchange", c, f) {
							bad++
						}
						if bad > 5 {
							return
						}
					}
				}
			}
		}
		if n > 0 {
			harness.Rec.BulkDistinct(n, int64(crossed), "fieldsweep-"+typ)
			for name := range fieldsSeen {
				harness.Rec.Class("fieldsweep-" + typ + ":" + name)
			}
		}
		if harness.Rec.WantSample() {
			harness.Rec.Sample(map[string]interface{}{"kind": "countsweep", "type": typ, "instances": instances, "cases": n, "canonical-strings-crossed": crossed})
		}
	}
	harness.Rec.Exhaustive(fmt.Sprintf("count sweep: (%d leaf types + stsd, dref) x %d grammar instances x 32-bit field at payload offset 4/8/12 x %d boundary values x {reader, sr}; then the 8/16/24/32-bit count and length fields of fieldsOf (sidx, saiz, saio, pssh, sgpd, hvcC, avcC, subs, tfrf, esds, stz2, leva, tlou, alou, dec3, vpcC, ssix, trun) x boundary values of their width x {reader, sr}", len(types)-2, instances, len(sweepCounts)))
}

// ---------------------------------------------------------------------------------------------
// file level: size fields and 64-bit size headers of the top-level boxes

var fileSweepKinds = []string{"prog", "init", "media", "frag"}

func TestFileSizeSweep(t *testing.T) {
	instances := harness.Pick(20, 100)
	bad := 0
	for ki, kind := range fileSweepKinds {
		kind := kind
		gen := rapid.Custom(func(rt *rapid.T) []byte { return boxgen.File(rt, kind, boxgen.Opt{}) })
		crossed, accepted, n := 0, 0, int64(0)
		large := map[string]int64{}
		for i := 0; i < instances; i++ {
			if (ki*instances+i)%harness.E.NShards != harness.E.Shard {
				continue
			}
			base := gen.Example(i)
			tree, err := boxwalk.WalkAll(base)
			if err != nil {
				continue
			}
			flat := boxwalk.Flatten(tree)
			var muts [][]boxmut.Mut
			for idx, b := range flat {
				if b.Depth != 0 {
					continue
				}
				// the 32-bit size field: absolute values, one less, one more
				for _, v := range []uint64{0, 1, 7, 8, 0xffffffff} {
					muts = append(muts, []boxmut.Mut{{Op: "size", Box: idx, Val: v}})
				}
				muts = append(muts, []boxmut.Mut{{Op: "size", Box: idx, Val: 1, N: 2}}, []boxmut.Mut{{Op: "size", Box: idx, Val: 1, N: 1}})
				// 64-bit size headers (14496-12 4.2 allows them on every box)
				if b.Type == "mdat" || b.Type == "moof" || b.Type == "sidx" {
					large[b.Type]++
					muts = append(muts, []boxmut.Mut{{Op: "largesize", Box: idx}})
					sz := uint64(b.Size + 8)
					for _, v := range []uint64{0, 1, 15, 16, sz - 1, sz + 1, 0xffffffff, 0x100000000, 0x7fffffffffffffff, 0x8000000000000000, 0xffffffffffffffff} {
						muts = append(muts, []boxmut.Mut{{Op: "largesize", Box: idx, N: 1, Val: v}})
					}
				}
			}
			for _, m := range muts {
				for _, path := range []string{"reader", "sr"} {
					c := boxprop.Case{Box: -1, Level: "file", Path: path, Synth: base, Origin: "file:" + kind, Muts: m, Opt: true}
					f := harness.Guarded(func() *harness.Fail { return checkInterchange(c) })
					n++
					if last.accepted {
						accepted++
					}
					if last.canonical {
						crossed++
					}
					if f != nil && harness.ReportDirect(t, "interchange", c, f) {
						bad++
					}
					if bad > 5 {
						return
					}
				}
			}
		}
		harness.Rec.BulkDistinct(n, int64(crossed), "filesizesweep-"+kind)
		harness.Rec.ClassN("filesizesweep-accepted-"+kind, int64(accepted))
		for ty, k := range large {
			harness.Rec.ClassN("filesizesweep-largesize-"+ty, k)
		}
		if harness.Rec.WantSample() {
			harness.Rec.Sample(map[string]interface{}{"kind": "filesizesweep", "file": kind, "cases": n, "accepted": accepted, "canonical-strings-crossed": crossed})
		}
	}
	harness.Rec.Exhaustive(fmt.Sprintf("file size sweep: %v x %d grammar-generated files x every top-level box x size field in {0, 1, 7, 8, size-1, size+1, 0xffffffff} + (mdat, moof, sidx) x 64-bit size header {correct, 0, 1, 15, 16, size-1, size+1, 2^32-1, 2^32, 2^63-1, 2^63, 2^64-1} x {reader, sr}", fileSweepKinds, instances))
}
