// C03 — the two decoders and the two encoders are interchangeable.
package c03

import (
	"bytes"
	"encoding/json"
	"fmt"
	"os"
	"reflect"
	"regexp"
	"strings"
	"testing"

	"github.com/Eyevinn/mp4ff/bits"
	"github.com/Eyevinn/mp4ff/mp4"
	"pgregory.net/rapid"

	"verif/internal/boxprop"
	"verif/internal/harness"
)

func TestMain(m *testing.M) { harness.Main(m) }

func init() { harness.RegisterReplay("interchange", harness.Replayer(checkInterchange)) }

func TestReplay(t *testing.T) { harness.ReplayPath(t) }

type outcome struct {
	accepted, canonical, fragmented bool
	aBoxTree, aSegment, aOpt        bool // clause A: encode modes in which the two encoders were compared
	boxFileCrossed                  bool // box level vs file level compared (the file decoders accepted the lone box)
	boxFileRejected                 bool // ... a file decoder rejected the lone box (cross-box requirements): no claim
	boxFileSencSkipped              bool // ... left out: top-level moof holding a senc box (see below)
}

var last outcome

func other(path string) string {
	if path == "sr" {
		return "reader"
	}
	return "sr"
}

func get(d boxprop.Decoded) interface{} {
	if d.File != nil {
		return d.File
	}
	return d.Box
}

func checkInterchange(c boxprop.Case) *harness.Fail {
	last = outcome{}
	in := c.Bytes()
	if len(in) == 0 {
		return nil
	}
	dx, err := boxprop.Decode(in, c.Level, c.Path)
	if err != nil || dx.Nil() {
		return nil
	}
	last.accepted = true
	// ---- (A) encoders: identical bytes or both fail, in every mode, on fresh structures
	for _, boxTree := range []bool{true, false} {
		for _, opt := range []bool{false, true} {
			if c.Level == "box" && (!boxTree || opt) {
				continue
			}
			if opt && !c.Opt {
				continue
			}
			d1, e1 := boxprop.Decode(in, c.Level, c.Path)
			d2, e2 := boxprop.Decode(in, c.Level, c.Path)
			if e1 != nil || e2 != nil {
				return harness.Failf("C03|decode|same input decodes differently on repetition", "%v / %v", e1, e2)
			}
			w, errW := boxprop.EncodeW(d1, boxTree, opt)
			// the buffer has exactly Size() bytes, taken after the encode mode is set (File.Size follows the mode)
			s, errS := boxprop.EncodeSW(d2, boxTree, opt, -1)
			mode := fmt.Sprintf("boxtree=%v optimize=%v", boxTree, opt)
			if (errW == nil) != (errS == nil) {
				return harness.Failf("C03|encoders|one encoder fails and the other succeeds", "%s: Encode: %v, EncodeSW: %v", mode, errW, errS)
			}
			if errW == nil {
				last.aBoxTree = last.aBoxTree || boxTree
				last.aSegment = last.aSegment || (!boxTree && d1.File != nil && d1.File.IsFragmented())
				last.aOpt = last.aOpt || opt
			}
			if errW == nil && !bytes.Equal(w, s) {
				return harness.Failf("C03|encoders|Encode and EncodeSW bytes differ", "%s: %d vs %d bytes%s", mode, len(w), len(s), firstDiff(w, s))
			}
		}
	}
	// ---- (B) decoders on canonical strings
	canon, err := boxprop.EncodeW(dx, true, false)
	if err != nil {
		return nil
	}
	dcx, err := boxprop.Decode(canon, c.Level, c.Path)
	if err != nil || dcx.Nil() {
		return nil // not re-decodable: judged by C01
	}
	again, err := boxprop.EncodeW(dcx, true, false)
	if err != nil || !bytes.Equal(again, canon) {
		return nil // not a fixed point of path X: outside the statement (judged by C01)
	}
	last.canonical = true
	dcx, _ = boxprop.Decode(canon, c.Level, c.Path) // fresh (encoding may touch caches)
	y := other(c.Path)
	dcy, err := boxprop.Decode(canon, c.Level, y)
	if err != nil || dcy.Nil() {
		return harness.Failf("C03|decoders|canonical string of "+c.Path+" rejected by "+y+" in "+errSite(err), "%s accepts and reproduces it, %s: %v\n %s", c.Path, y, err, harness.HexTrunc(canon, 200))
	}
	if diff := boxprop.DeepDiff(get(dcx), get(dcy), boxprop.EqOpt{}); diff != "" {
		key := "C03|decoders|structures differ between the two paths"
		return harness.Failf(key, "%s vs %s: %s", c.Path, y, diff)
	}
	outY, err := boxprop.EncodeW(dcy, true, false)
	if err != nil || !bytes.Equal(outY, canon) {
		return harness.Failf("C03|decoders|re-encoding after the other path differs", "err %v, %d vs %d bytes%s", err, len(outY), len(canon), firstDiff(outY, canon))
	}
	if dcx.File != nil {
		last.fragmented = dcx.File.IsFragmented()
		if dcx.File.IsFragmented() != dcy.File.IsFragmented() {
			return harness.Failf("C03|decoders|IsFragmented differs", "")
		}
	}
	// box level vs file level: a file that consists of this one box.
	// Left out (and counted): a top-level moof box that holds a senc box. Only for top-level moof boxes do the file
	// decoders add a second phase that parses senc with an IV size taken from the init segment or, without one as
	// here, inferred from the data; a moof decoded on its own keeps the senc payload unparsed. Every other box that
	// holds a senc box (traf, senc itself, the PIFF uuid form, containers around them) takes the same route at both
	// levels and is compared.
	if c.Level == "box" {
		if skipMoofSenc && topType(canon) == "moof" && (bytes.Contains(canon, []byte("senc")) || bytes.Contains(canon, piffSencUUID)) {
			last.boxFileSencSkipped = true
			return nil
		}
		for _, p := range []string{"reader", "sr"} {
			df, err := boxprop.Decode(canon, "file", p)
			if err != nil {
				// the file decoders add cross-box requirements (e.g. mdat after moof); only count it
				last.boxFileRejected = true
				continue
			}
			if len(df.File.Children) != 1 {
				return harness.Failf("C03|box vs file|file decoder finds a different number of boxes", "%d", len(df.File.Children))
			}
			// The structures are compared through what they write.
			fout, err := boxprop.EncodeW(df, true, false)
			if err != nil || !bytes.Equal(fout, canon) {
				return harness.Failf("C03|box vs file|box decoded at file level re-encodes differently", "%s: err %v, %d vs %d bytes%s", p, err, len(fout), len(canon), firstDiff(fout, canon))
			}
			last.boxFileCrossed = true
		}
	}
	return nil
}

var siteRe = regexp.MustCompile(`decode(?: box)? "?([A-Za-z0-9 \-]{4})"? pos`)
var numRe = regexp.MustCompile(`[0-9]+`)

// errSite names the innermost box the rejecting decoder was in and the class of its error.
func errSite(err error) string {
	s := err.Error()
	site := "?"
	if m := siteRe.FindAllStringSubmatch(s, -1); len(m) > 0 {
		site = m[len(m)-1][1]
	}
	cls := s
	if i := strings.LastIndex(s, ": "); i >= 0 {
		cls = s[i+2:]
	}
	return site + ": " + numRe.ReplaceAllString(cls, "N")
}

// skipMoofSenc: development aid, VERIF_C03_NOSENCSKIP=1 judges the lone moof boxes with senc as well.
var skipMoofSenc = os.Getenv("VERIF_C03_NOSENCSKIP") == ""

func topType(in []byte) string {
	if len(in) >= 8 {
		return string(in[4:8])
	}
	return ""
}

var piffSencUUID = []byte{0xa2, 0x39, 0x4f, 0x52, 0x5a, 0x9b, 0x4f, 0x14, 0xa2, 0x44, 0x6c, 0x42, 0x7c, 0x64, 0x8d, 0xf4}

func firstDiff(a, b []byte) string {
	n := len(a)
	if len(b) < n {
		n = len(b)
	}
	for i := 0; i < n; i++ {
		if a[i] != b[i] {
			lo := i - 8
			if lo < 0 {
				lo = 0
			}
			return fmt.Sprintf("; first difference at %d: %s vs %s", i, harness.HexTrunc(a[lo:], 24), harness.HexTrunc(b[lo:], 24))
		}
	}
	return "; one is a prefix of the other"
}

func run(t *testing.T, name string, cfg boxprop.GenConfig) {
	harness.RunRapid(t, name, func(rt *rapid.T) {
		c := boxprop.Gen(rt, cfg)
		raw, _ := json.Marshal(c)
		f := harness.Guarded(func() *harness.Fail { return checkInterchange(c) })
		cls := []string{"level-" + c.Level, "path-" + c.Path, "seedkind-" + c.SeedKind()}
		if c.Synth != nil {
			cls = append(cls, "synth", "synth-"+c.Origin)
		}
		switch {
		case last.canonical:
			cls = append(cls, "canonical-string-crossed")
		case last.accepted:
			cls = append(cls, "accepted-not-canonical")
		default:
			cls = append(cls, "rejected")
		}
		if last.fragmented {
			cls = append(cls, "fragmented-file")
		}
		for _, k := range []struct {
			on   bool
			name string
		}{{last.aBoxTree, "A-boxtree"}, {last.aSegment, "A-segment"}, {last.aOpt, "A-opt"}, {last.boxFileCrossed, "boxfile-crossed"},
			{last.boxFileRejected, "boxfile-rejected-at-file-level(no claim)"}, {last.boxFileSencSkipped, "boxfile-skipped-moof-with-senc"}} {
			if k.on {
				cls = append(cls, k.name)
			}
		}
		nt := last.canonical && (c.Level == "file" || len(c.Muts) > 0 || c.Synth != nil)
		harness.Rec.Case(nt, raw, cls...)
		if nt && harness.Rec.WantSample() && len(raw) < 400 {
			harness.Rec.Sample(map[string]interface{}{"kind": "interchange", "case": c})
		}
		if f != nil {
			c.Data = c.Bytes()
			if len(c.Data) > 64<<10 {
				c.Data = nil
			}
		}
		harness.Report(rt, "interchange", c, f)
	})
}

func TestPristine(t *testing.T) { run(t, "pristine", boxprop.GenConfig{MaxSeed: 300 << 10}) }
func TestMutated(t *testing.T) {
	run(t, "mutated", boxprop.GenConfig{MaxSeed: harness.Pick(64<<10, 300<<10), Mutate: true})
}

// TestRegistries: the two dispatch tables know the same box types.
func TestRegistries(t *testing.T) {
	r, s := mp4.VerifRegisteredBoxTypes()
	harness.Rec.CaseDistinct(true, "registry-compare")
	harness.Rec.CaseDistinct(true, "registry-compare")
	harness.Rec.Sample(map[string]interface{}{"kind": "registry", "reader_types": len(r), "sr_types": len(s)})
	if !reflect.DeepEqual(r, s) {
		harness.ReportDirect(t, "interchange", boxprop.Case{}, harness.Failf("C03|registry|the two decoder tables have different key sets", "reader %v\nsr %v", r, s))
	}
	// the history RemoveBoxDecoder(type) ... SetBoxDecoder(type, ...): after the removal BOTH paths treat the type as
	// unknown (same structure, same bytes), and the key sets still coincide; after the restoration both decode it again
	type entry struct {
		typ   string
		box   []byte
		dec   mp4.BoxDecoder
		decSR mp4.BoxDecoderSR
	}
	ents := []entry{
		{"free", []byte{0, 0, 0, 12, 'f', 'r', 'e', 'e', 1, 2, 3, 4}, mp4.DecodeFree, mp4.DecodeFreeSR},
		{"sidx", []byte{0, 0, 0, 44, 's', 'i', 'd', 'x', 0, 0, 0, 0, 0, 0, 0, 1, 0, 0, 3, 232, 0, 0, 0, 0, 0, 0, 0, 0, 0, 0, 0, 1, 0, 0, 1, 0, 0, 0, 7, 208, 0x90, 0, 0, 0}, mp4.DecodeSidx, mp4.DecodeSidxSR},
		{"mfhd", []byte{0, 0, 0, 16, 'm', 'f', 'h', 'd', 0, 0, 0, 0, 0, 0, 0, 9}, mp4.DecodeMfhd, mp4.DecodeMfhdSR},
	}
	both := func(b []byte) (string, string) {
		describe := func(bx mp4.Box, err error) string {
			if err != nil {
				return "error"
			}
			var w bytes.Buffer
			_ = bx.Encode(&w)
			return fmt.Sprintf("%T %x", bx, w.Bytes())
		}
		b1, e1 := mp4.DecodeBox(0, bytes.NewReader(b))
		b2, e2 := mp4.DecodeBoxSR(0, bits.NewFixedSliceReader(b))
		return describe(b1, e1), describe(b2, e2)
	}
	for _, e := range ents {
		harness.Rec.CaseDistinct(true, "registry-remove-restore-"+e.typ)
		before1, before2 := both(e.box)
		mp4.RemoveBoxDecoder(e.typ)
		gone1, gone2 := both(e.box)
		r2, s2 := mp4.VerifRegisteredBoxTypes()
		mp4.SetBoxDecoder(e.typ, e.dec, e.decSR)
		after1, after2 := both(e.box)
		switch {
		case !reflect.DeepEqual(r2, s2):
			harness.ReportDirect(t, "interchange", boxprop.Case{}, harness.Failf("C03|registry|the two decoder tables have different key sets", "after RemoveBoxDecoder(%q): reader %d types, sr %d types", e.typ, len(r2), len(s2)))
		case gone1 != gone2:
			harness.ReportDirect(t, "interchange", boxprop.Case{}, harness.Failf("C03|registry|after RemoveBoxDecoder the two paths decode the type differently", "%q: DecodeBox %s, DecodeBoxSR %s", e.typ, gone1, gone2))
		case before1 != before2 || after1 != after2 || before1 != after1:
			harness.ReportDirect(t, "interchange", boxprop.Case{}, harness.Failf("C03|registry|the two paths differ around a removal and restoration of a decoder", "%q: before %s / %s, after %s / %s", e.typ, before1, before2, after1, after2))
		}
	}
	r3, s3 := mp4.VerifRegisteredBoxTypes()
	if !reflect.DeepEqual(r3, r) || !reflect.DeepEqual(s3, s) {
		t.Fatalf("registry not restored")
	}
}

// TestSynth: boxes and files written by the grammar generator internal/boxgen, unmodified and with field mutations.
func TestSynth(t *testing.T) { run(t, "synth", boxprop.GenConfig{MaxSeed: 300 << 10, SynthPct: 100}) }
func TestSynthMutated(t *testing.T) {
	run(t, "synthmut", boxprop.GenConfig{MaxSeed: 300 << 10, SynthPct: 100, Mutate: true, FieldOnly: true})
}
