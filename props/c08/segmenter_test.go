package c08

// Tool-level clause of C08 (anchor examples/segmenter/segment.go): the segmenter writes its media segments
// either from sample data held in memory (default) or, with -lazy, by copying byte ranges of a lazily decoded
// mdat. For the same input and segment duration the two modes must write the same files with the same bytes.
// The conservation of samples as such is C11's subject; here only the equality of the two modes is judged, and
// only when the in-memory mode succeeds.

import (
	"bytes"
	"encoding/json"
	"fmt"
	"os"
	"path/filepath"
	"sort"
	"testing"

	"pgregory.net/rapid"

	"verif/internal/harness"
	"verif/internal/mp4build"
)

type segLazyCase struct {
	Tracks   []mp4build.Track    `json:"tracks"`
	Layout   mp4build.ProgLayout `json:"layout"`
	SegDurMS uint64              `json:"segDurMS"`
	Mux      bool                `json:"mux,omitempty"` // both runs with -m (multiplexed output)
}

func init() { harness.RegisterReplay("segmenterlazy", harness.Replayer(checkSegmenterLazy)) }

func readDir(dir string) (map[string][]byte, error) {
	out := map[string][]byte{}
	es, err := os.ReadDir(dir)
	if err != nil {
		return nil, err
	}
	for _, e := range es {
		if e.IsDir() {
			continue
		}
		b, err := os.ReadFile(filepath.Join(dir, e.Name()))
		if err != nil {
			return nil, err
		}
		out[e.Name()] = b
	}
	return out, nil
}

var lastSegFiles int

func checkSegmenterLazy(c segLazyCase) *harness.Fail {
	lastSegFiles = 0
	if f := missingBin("segmenter"); f != nil {
		return f
	}
	file, _, err := mp4build.BuildProgressive(c.Tracks, c.Layout)
	if err != nil {
		return harness.Failf("harness|c08|build", "%v", err)
	}
	dir, err := caseDir()
	if err != nil {
		return harness.Failf("harness|c08|scratch directory", "%v", err)
	}
	defer os.RemoveAll(dir)
	for _, d := range []string{"full", "lazy"} {
		if err := os.MkdirAll(filepath.Join(dir, d), 0o755); err != nil {
			return harness.Failf("harness|c08|scratch directory", "%v", err)
		}
	}
	if err := os.WriteFile(filepath.Join(dir, "in.mp4"), file, 0o644); err != nil {
		return harness.Failf("harness|c08|scratch directory", "%v", err)
	}
	d := fmt.Sprint(c.SegDurMS)
	var mux []string
	if c.Mux {
		mux = []string{"-m"}
	}
	full := runTool(dir, binPath("segmenter"), append(append([]string{"-d", d}, mux...), "in.mp4", "full/out")...)
	if crashed, _ := full.crashed(); crashed || full.Exit != 0 {
		return nil // the in-memory mode does not handle this input: no claim here (C11 judges the tool as such)
	}
	lazy := runTool(dir, binPath("segmenter"), append(append([]string{"-d", d, "-lazy"}, mux...), "in.mp4", "lazy/out")...)
	if crashed, class := lazy.crashed(); crashed {
		return harness.Failf("C08|segmenter -lazy|panic where the in-memory mode succeeds ("+class+")", "%s", tail(lazy.Stderr, 1200))
	}
	if lazy.Exit != 0 {
		return harness.Failf("C08|segmenter -lazy|error where the in-memory mode succeeds", "exit %d: %s", lazy.Exit, tail(lazy.Stderr+lazy.Stdout, 500))
	}
	ff, err := readDir(filepath.Join(dir, "full"))
	if err != nil {
		return harness.Failf("harness|c08|scratch directory", "%v", err)
	}
	lf, err := readDir(filepath.Join(dir, "lazy"))
	if err != nil {
		return harness.Failf("harness|c08|scratch directory", "%v", err)
	}
	var names []string
	for n := range ff {
		names = append(names, n)
	}
	sort.Strings(names)
	lastSegFiles = len(names)
	for _, n := range names {
		lb, ok := lf[n]
		if !ok {
			return harness.Failf("C08|segmenter -lazy|output file missing", "%s is written by the in-memory mode only", n)
		}
		if !bytes.Equal(ff[n], lb) {
			at := diffAt(ff[n], lb)
			return harness.Failf("C08|segmenter -lazy|output differs from the in-memory mode", "%s: %d bytes in memory, %d bytes lazily, first difference at %d", n, len(ff[n]), len(lb), at)
		}
	}
	for n := range lf {
		if _, ok := ff[n]; !ok {
			return harness.Failf("C08|segmenter -lazy|extra output file", "%s is written by the lazy mode only", n)
		}
	}
	return nil
}

const segBatch = 12

func TestSegmenterLazy(t *testing.T) {
	needBin(t, "segmenter")
	defer cleanupTmp()
	harness.RunRapid(t, "segmenterlazy", func(rt *rapid.T) {
		cases := make([]segLazyCase, segBatch)
		for i := range cases {
			tracks, lay, _, dur, _ := mp4build.GenSegmenterInput(rt, harness.Pick(30, 60), true)
			cases[i] = segLazyCase{Tracks: tracks, Layout: lay, SegDurMS: dur, Mux: rapid.IntRange(0, 2).Draw(rt, "mux") == 0}
		}
		fails := make([]*harness.Fail, len(cases))
		nfiles := make([]int, len(cases))
		var mu chan struct{} = make(chan struct{}, 1)
		parallel(len(cases), func(i int) {
			f := harness.Guarded(func() *harness.Fail {
				mu <- struct{}{} // lastSegFiles is shared: one evaluation at a time reports it
				defer func() { <-mu }()
				f := checkSegmenterLazy(cases[i])
				nfiles[i] = lastSegFiles
				return f
			})
			fails[i] = f
		})
		for i := range cases {
			raw, _ := json.Marshal(cases[i])
			cls := []string{"segmenter-lazy-vs-memory", fmt.Sprintf("segmenter-tracks-%d", len(cases[i].Tracks))}
			multiChunk := false
			for _, tl := range cases[i].Layout.Tracks {
				for _, cs := range tl.ChunkSizes {
					if cs > 1 {
						multiChunk = true
					}
				}
			}
			if multiChunk {
				cls = append(cls, "segmenter-chunks-with-several-samples")
			}
			if nfiles[i] > 0 {
				cls = append(cls, "segmenter-both-modes-wrote-output")
			} else {
				cls = append(cls, "segmenter-in-memory-mode-refused (no claim)")
			}
			harness.Rec.Case(nfiles[i] > 2 && multiChunk, raw, cls...)
			if harness.Rec.WantSample() && nfiles[i] > 2 && len(raw) < 6000 {
				harness.Rec.Sample(map[string]interface{}{"kind": "segmenterlazy", "case": cases[i], "output_files": nfiles[i]})
			}
		}
		for i := range cases {
			if fails[i] != nil {
				harness.Report(rt, "segmenterlazy", cases[i], fails[i])
			}
		}
	})
}
