// C08 — lazy-mdat mode is observationally equal to in-memory mode.
//
// The same bytes (harness-written progressive and fragmented files, and the repository's media files) are
// decoded twice with mp4.DecodeFile: normally and with mp4.WithDecodeMode(mp4.DecModeLazyMdat). The two
// trees must look the same (top-level box list, Size() of every box, start positions, Info dump at "all:1"),
// and MdatBox.ReadData / MdatBox.CopyData / File.CopySampleData must return in BOTH modes exactly the
// slice of the original file (the file bytes are the reference, the modes are not merely compared with
// each other). Ranges that leave the payload must be refused in both modes. Encoding the lazy mdat writes
// exactly its header; header || copied payload is the original box; File.Encode / EncodeSW of the lazy tree is
// the in-memory output without the mdat payloads.
//
// Argument conventions (mp4/mdat.go doc comments, mp4ff-crop): start is the absolute file position, size
// the number of bytes, rs a ReadSeeker over the whole file (nil is allowed for an in-memory mdat).
package c08

import (
	"bytes"
	"encoding/binary"
	"encoding/json"
	"fmt"
	"io"
	"os"
	"path/filepath"
	"sort"
	"strings"
	"sync"
	"testing"

	"github.com/Eyevinn/mp4ff/bits"
	"github.com/Eyevinn/mp4ff/mp4"
	"pgregory.net/rapid"

	"verif/internal/boxgen"
	"verif/internal/boxwalk"
	"verif/internal/fragbuild"
	"verif/internal/harness"
	"verif/internal/mp4build"
	"verif/internal/tablemodel"
)

func TestMain(m *testing.M) { harness.Main(m) }

func init() {
	harness.RegisterReplay("lazymdat", harness.Replayer(checkLazy))
	// development aid: VERIF_C08_NOAVOID=all or a comma-separated list of switch names evaluates the
	// known-defect argument classes as well
	if v := os.Getenv("VERIF_C08_NOAVOID"); v == "all" {
		avoidKnown = map[string]bool{}
	} else if v != "" {
		for _, name := range strings.Split(v, ",") {
			delete(avoidKnown, name)
		}
	}
}

func TestReplay(t *testing.T) { harness.ReplayPath(t) }

// avoidKnown lists the confirmed library defects whose argument class is skipped (and counted) so that the
// search continues behind them. Each name has a reproducer /verif/replay/C08/kf-<name>.json (those cases
// carry "noAvoid": true, so replaying them shows the failure).
var avoidKnown = map[string]bool{
	// mp4/mdat.go ReadData and CopyData, in-memory branch: `endIndexInMdatData >= dataLen` refuses every range
	// whose last byte is the last payload byte (the whole payload included); the lazy branch returns it.
	// Skipped: in-memory ReadData/CopyData queries with start+size == end of payload.
	"inmem-range-ending-at-last-payload-byte": false, // repaired in /repo (fix: fac9f3c)
	// mp4/mdat.go ReadData and CopyData, lazy branch: no check against the payload at all; a range that starts
	// in front of the payload or ends behind it is served from the neighbouring boxes of the file without error
	// (the in-memory branch answers "invalid range provided").
	// Skipped: lazy ReadData/CopyData queries outside the payload that lie completely inside the file.
	"lazy-range-outside-payload-not-refused": false, // repaired in /repo (fix: 9822665)
}

const (
	exhaustiveMax   = 96 // payloads up to this size: every (start,size>=1) range
	allIntervalsMax = 24 // tracks up to this many samples: every interval
	infoLevel       = "all:1"
)

type rangeQ struct {
	Mdat int   `json:"mdat"` // index of the top-level mdat box in file order
	Off  int64 `json:"off"`  // relative to the first payload byte; outside the payload = must be refused
	Size int64 `json:"size"`
}

type lazyCase struct {
	Kind       string                `json:"kind"` // "prog" | "frag" | "repo" | "synth"
	Tracks     []mp4build.Track      `json:"tracks,omitempty"`
	Layout     *mp4build.ProgLayout  `json:"layout,omitempty"`
	FTracks    []fragbuild.Track     `json:"ftracks,omitempty"`
	FLayout    *fragbuild.FileLayout `json:"flayout,omitempty"`
	Path       string                `json:"path,omitempty"`      // "repo": path relative to the checkout
	Data       harness.HexBytes      `json:"data,omitempty"`      // "synth": a file written by the grammar generator internal/boxgen (judged like a repository file)
	Ranges     []rangeQ              `json:"ranges,omitempty"`    // in addition to the ranges the oracle forms itself
	TrackIndex int                   `json:"trackIndex"`          // progressive: the track whose intervals are evaluated
	Intervals  [][2]uint32           `json:"intervals,omitempty"` // in addition to the boundary intervals when N > allIntervalsMax
	WorkBuf    int                   `json:"workBuf,omitempty"`   // one more work-buffer size
	NoAvoid    bool                  `json:"noAvoid,omitempty"`   // ignore avoidKnown (reproducers of known findings)
	// NoAvoidOnly restricts NoAvoid to the named switches (a minimal file shows both findings of ReadData/CopyData;
	// the reproducer of one keeps the other one avoided)
	NoAvoidOnly []string `json:"noAvoidOnly,omitempty"`
}

// repoLike: inputs not written by the harness' own writers (repository files, grammar-generated files): whatever
// both modes reject alike is outside the domain.
func (c *lazyCase) repoLike() bool { return c.Kind == "repo" || c.Kind == "synth" }

type stats struct {
	queries int64
	skipped map[string]int64
	classes map[string]bool
}

func (st *stats) class(s string) {
	if st.classes == nil {
		st.classes = map[string]bool{}
	}
	st.classes[s] = true
}

func (c *lazyCase) avoid(st *stats, name string) bool {
	if !avoidKnown[name] {
		return false
	}
	if c.NoAvoid {
		if len(c.NoAvoidOnly) == 0 {
			return false
		}
		for _, n := range c.NoAvoidOnly {
			if n == name {
				return false
			}
		}
	}
	if st.skipped == nil {
		st.skipped = map[string]int64{}
	}
	st.skipped[name]++
	return true
}

func checkLazy(c lazyCase) *harness.Fail {
	var st stats
	return evalLazy(&c, &st)
}

// ---------------------------------------------------------------------------------------------
// the file and what the harness knows about it without the library

type topBox struct {
	Type                 string
	Start, Size, HdrSize int
}

func (b topBox) payloadStart() int { return b.Start + b.HdrSize }
func (b topBox) payloadSize() int  { return b.Size - b.HdrSize }

// walkTop parses the top-level box sequence (ISO/IEC 14496-12 4.2) of data.
func walkTop(data []byte) ([]topBox, error) {
	var out []topBox
	for pos := 0; pos < len(data); {
		if len(data)-pos < 8 {
			return out, fmt.Errorf("%d trailing bytes at %d", len(data)-pos, pos)
		}
		size := uint64(binary.BigEndian.Uint32(data[pos:]))
		b := topBox{Type: string(data[pos+4 : pos+8]), Start: pos, HdrSize: 8}
		switch size {
		case 1:
			if len(data)-pos < 16 {
				return out, fmt.Errorf("box %q at %d: truncated largesize", b.Type, pos)
			}
			size = binary.BigEndian.Uint64(data[pos+8:])
			b.HdrSize = 16
		case 0:
			return out, fmt.Errorf("box %q at %d: size 0 (to end of file)", b.Type, pos)
		}
		if size < uint64(b.HdrSize) || size > uint64(len(data)-pos) {
			return out, fmt.Errorf("box %q at %d: size %d, %d bytes left", b.Type, pos, size, len(data)-pos)
		}
		b.Size = int(size)
		out = append(out, b)
		pos += b.Size
	}
	return out, nil
}

type sampleRef struct{ off, size int }

type material struct {
	file    []byte
	top     []topBox
	mdats   []topBox // the top-level mdat boxes in file order
	seams   []int    // absolute offsets where a chunk / run / sample starts or ends
	samples [][]sampleRef
	prog    bool             // progressive file with sample tables (CopySampleData applies)
	ftruth  *fragbuild.Truth // "frag": what the writer knows about the fragments
}

var (
	stsdOnce     sync.Once
	fVideo, fAud []byte
	stsdErr      error
)

func fragStsd() ([]byte, []byte, error) {
	stsdOnce.Do(func() { fVideo, fAud, stsdErr = fragbuild.HarvestStsd(harness.E.RepoDir) })
	return fVideo, fAud, stsdErr
}

func materialise(c *lazyCase) (*material, *harness.Fail) {
	m := &material{}
	switch c.Kind {
	case "prog":
		if c.Layout == nil {
			return nil, harness.Failf("harness|c08|bad-case", "no layout")
		}
		file, truth, err := mp4build.BuildProgressive(c.Tracks, *c.Layout)
		if err != nil {
			return nil, harness.Failf("harness|c08|build", "%v", err)
		}
		m.file = file
		for ti, tt := range truth.Tracks {
			for i, o := range tt.ChunkOffset {
				if tt.ChunkSize[i] == 0 {
					continue // may lie outside the mdat (EmptyChunkAt)
				}
				m.seams = append(m.seams, int(o), int(o+tt.ChunkSize[i]))
			}
			for si, o := range tt.SampleOffset {
				d := c.Tracks[ti].Samples[si].Data
				if len(d) == 0 {
					continue // an empty sample of an empty chunk may be placed anywhere (EmptyChunkAt)
				}
				if !bytes.Equal(file[o:int(o)+len(d)], d) {
					return nil, harness.Failf("harness|c08|writer-truth-differs-from-file", "track %d sample %d", ti, si+1)
				}
			}
		}
		top, err := walkTop(file)
		if err != nil {
			return nil, harness.Failf("harness|c08|walk", "%v", err)
		}
		m.top = top
		for _, b := range top {
			if b.Type == "mdat" && b.payloadSize() > 0 && (uint64(b.Start) != truth.MdatStart || uint64(b.payloadStart()) != truth.MdatPayloadStart || uint64(b.payloadSize()) != truth.MdatPayloadSize) {
				return nil, harness.Failf("harness|c08|writer-truth-differs-from-file", "mdat %+v, truth %d/%d/%d", b, truth.MdatStart, truth.MdatPayloadStart, truth.MdatPayloadSize)
			}
		}
	case "frag":
		if c.FLayout == nil {
			return nil, harness.Failf("harness|c08|bad-case", "no layout")
		}
		init, segs, truth, err := fragbuild.Build(c.FTracks, *c.FLayout)
		if err != nil {
			return nil, harness.Failf("harness|c08|build", "%v", err)
		}
		m.file = fragbuild.Concat(init, segs, truth)
		m.ftruth = truth
		top, err := walkTop(m.file)
		if err != nil {
			return nil, harness.Failf("harness|c08|walk", "%v", err)
		}
		m.top = top
		var want []fragbuild.BoxInfo
		for _, sg := range truth.Segments {
			for _, fr := range sg.Frags {
				want = append(want, fr.Mdat)
				for _, r := range fr.Runs {
					m.seams = append(m.seams, int(r.DataOffset))
				}
			}
		}
		k := 0
		for _, b := range top {
			if b.Type != "mdat" {
				continue
			}
			if k >= len(want) || want[k].Offset != uint64(b.Start) || want[k].Size != uint64(b.Size) {
				return nil, harness.Failf("harness|c08|writer-truth-differs-from-file", "mdat #%d %+v", k, b)
			}
			k++
		}
		if k != len(want) {
			return nil, harness.Failf("harness|c08|writer-truth-differs-from-file", "%d mdat boxes, truth %d", k, len(want))
		}
	case "repo":
		if c.Path == "" || strings.Contains(c.Path, "..") {
			return nil, harness.Failf("harness|c08|bad-case", "path %q", c.Path)
		}
		data, err := os.ReadFile(filepath.Join(harness.E.RepoDir, c.Path))
		if err != nil {
			return nil, harness.Failf("harness|c08|bad-case", "%v", err)
		}
		m.file = data
		top, err := walkTop(data)
		if err != nil {
			return nil, nil // not a well-formed box sequence: outside the domain
		}
		m.top = top
	case "synth":
		if len(c.Data) == 0 {
			return nil, harness.Failf("harness|c08|bad-case", "no data")
		}
		m.file = append([]byte{}, c.Data...)
		top, err := walkTop(m.file)
		if err != nil {
			return nil, nil
		}
		m.top = top
	default:
		return nil, harness.Failf("harness|c08|bad-case", "kind %q", c.Kind)
	}
	hasMoof, nMoov := false, 0
	for _, b := range m.top {
		switch b.Type {
		case "mdat":
			m.mdats = append(m.mdats, b)
		case "moof":
			hasMoof = true
		case "moov":
			nMoov++
		}
	}
	if !hasMoof && nMoov == 1 && c.Kind != "frag" {
		// independent byte-level view of the sample tables
		if mv, err := tablemodel.ParseProgressive(m.file); err == nil && len(mv.Tracks) > 0 {
			ok := true
			for _, tr := range mv.Tracks {
				var refs []sampleRef
				if tr.X == nil {
					ok = false
					break
				}
				for nr := 1; nr <= tr.X.N; nr++ {
					o, s := int(tr.X.Offset[nr]), int(tr.X.Size[nr])
					if s == 0 {
						o = 0 // no bytes: the position is immaterial (and may lie outside the file)
					}
					if o < 0 || s < 0 || o+s > len(m.file) {
						ok = false
						break
					}
					refs = append(refs, sampleRef{o, s})
				}
				m.samples = append(m.samples, refs)
			}
			total := 0
			for _, r := range m.samples {
				total += len(r)
			}
			m.prog = ok && total > 0
			if c.repoLike() && m.prog {
				for _, tr := range mv.Tracks {
					for cn := 1; cn <= tr.X.NrChunks(); cn++ {
						m.seams = append(m.seams, int(tr.X.Chunks[cn].Offset), int(tr.X.Chunks[cn].Offset+tr.X.Chunks[cn].Size))
					}
				}
			}
		} else if c.Kind == "prog" {
			return nil, harness.Failf("harness|c08|reference-parse", "%v", err)
		}
		if c.Kind == "prog" {
			if !m.prog || len(m.samples) != len(c.Tracks) {
				return nil, harness.Failf("harness|c08|reference-differs-from-model", "tracks %d/%d", len(m.samples), len(c.Tracks))
			}
			for ti, tr := range c.Tracks {
				if len(m.samples[ti]) != len(tr.Samples) {
					return nil, harness.Failf("harness|c08|reference-differs-from-model", "track %d: %d/%d samples", ti, len(m.samples[ti]), len(tr.Samples))
				}
				for si, s := range tr.Samples {
					r := m.samples[ti][si]
					if !bytes.Equal(m.file[r.off:r.off+r.size], s.Data) {
						return nil, harness.Failf("harness|c08|reference-differs-from-model", "track %d sample %d", ti, si+1)
					}
				}
			}
		}
	}
	sort.Ints(m.seams)
	return m, nil
}

// ---------------------------------------------------------------------------------------------
// the oracle

type evalCtx struct {
	c   *lazyCase
	st  *stats
	m   *material
	rs  *bytes.Reader // the ReadSeeker handed to the lazy tree; shared by all queries
	mdN []*mp4.MdatBox
	mdL []*mp4.MdatBox
	out bytes.Buffer
	// slices returned by successful lazy ReadData calls, kept until the end: a later read must not change them
	// (in-memory mode hands out stable sub-slices of the payload)
	held []heldRead
}

type heldRead struct {
	got  []byte
	want []byte
	desc string
}

func info(f *mp4.File) (string, error) {
	var b bytes.Buffer
	err := f.Info(&b, infoLevel, "", "  ")
	return b.String(), err
}

func firstDiff(a, b string) string {
	la, lb := strings.Split(a, "\n"), strings.Split(b, "\n")
	for i := 0; i < len(la) || i < len(lb); i++ {
		var x, y string
		if i < len(la) {
			x = la[i]
		}
		if i < len(lb) {
			y = lb[i]
		}
		if x != y {
			return fmt.Sprintf("line %d: in-memory %q, lazy %q", i+1, x, y)
		}
	}
	return "equal"
}

func evalLazy(c *lazyCase, st *stats) *harness.Fail {
	m, fail := materialise(c)
	if fail != nil {
		return fail
	}
	if m == nil {
		st.class("repo:not-a-box-sequence")
		return nil
	}
	file := m.file
	fN, errN := mp4.DecodeFile(bytes.NewReader(file))
	rs := bytes.NewReader(file)
	fL, errL := mp4.DecodeFile(rs, mp4.WithDecodeMode(mp4.DecModeLazyMdat))
	st.queries += 2
	if (errN == nil) != (errL == nil) {
		return harness.Failf("C08|DecodeFile|error in one mode only", "in-memory: %v; lazy: %v (well-formed top-level box sequence of %d bytes)", errN, errL, len(file))
	}
	if errN != nil {
		if !c.repoLike() {
			return harness.Failf("C08|DecodeFile|error on harness-written file (both modes)", "%v", errN)
		}
		st.class("repo:undecodable-in-both-modes")
		return nil
	}
	e := &evalCtx{c: c, st: st, m: m, rs: rs}

	// ---- the trees
	if len(fN.Children) != len(m.top) || len(fL.Children) != len(m.top) {
		return harness.Failf("C08|DecodeFile|number of top-level boxes differs", "in-memory %d, lazy %d, file %d", len(fN.Children), len(fL.Children), len(m.top))
	}
	resized := false // some non-mdat box has a re-computed size (both modes alike)
	for i, tb := range m.top {
		bn, bl := fN.Children[i], fL.Children[i]
		st.queries += 2
		if bn.Type() != tb.Type || bl.Type() != tb.Type {
			return harness.Failf("C08|DecodeFile|top-level box type differs", "box %d: in-memory %q, lazy %q, file %q", i, bn.Type(), bl.Type(), tb.Type)
		}
		if bl.Size() != uint64(tb.Size) {
			// the mdat box itself must be exact; for any other box a re-computed size that differs from the one in
			// the file (64-bit size headers written compactly, at any depth) is the business of the round-trip
			// checks, as long as the two modes agree on it
			if tb.Type == "mdat" || bl.Size() != bn.Size() {
				return harness.Failf("C08|Box.Size|lazy: size differs from the size in the file", "box %d %q: Size() = %d (in-memory %d), file %d", i, tb.Type, bl.Size(), bn.Size(), tb.Size)
			}
			resized = true
		}
		if bn.Size() != uint64(tb.Size) {
			// a re-computed size that differs from the one in the file is the business of the round-trip checks
			// unless it is the mdat box itself
			if tb.Type == "mdat" {
				return harness.Failf("C08|Box.Size|in-memory: size differs from the size in the file", "box %d %q: Size() = %d, file %d", i, tb.Type, bn.Size(), tb.Size)
			}
			st.class("non-mdat-box-resized-by-decoder")
		}
		type posd struct {
			name string
			n, l uint64
		}
		var p *posd
		switch x := bn.(type) {
		case *mp4.MdatBox:
			y := bl.(*mp4.MdatBox)
			e.mdN, e.mdL = append(e.mdN, x), append(e.mdL, y)
			p = &posd{"MdatBox.StartPos", x.StartPos, y.StartPos}
			st.queries += 6
			if x.HeaderSize() != uint64(tb.HdrSize) || y.HeaderSize() != uint64(tb.HdrSize) {
				return harness.Failf("C08|MdatBox.HeaderSize|differs from the header in the file", "mdat at %d: in-memory %d, lazy %d, file %d", tb.Start, x.HeaderSize(), y.HeaderSize(), tb.HdrSize)
			}
			if x.PayloadAbsoluteOffset() != uint64(tb.payloadStart()) || y.PayloadAbsoluteOffset() != uint64(tb.payloadStart()) {
				return harness.Failf("C08|MdatBox.PayloadAbsoluteOffset|differs from the file", "mdat at %d: in-memory %d, lazy %d, file %d", tb.Start, x.PayloadAbsoluteOffset(), y.PayloadAbsoluteOffset(), tb.payloadStart())
			}
			if x.LargeSize != (tb.HdrSize == 16) || y.LargeSize != (tb.HdrSize == 16) {
				return harness.Failf("C08|MdatBox.LargeSize|differs from the header in the file", "mdat at %d: in-memory %v, lazy %v, header %d bytes", tb.Start, x.LargeSize, y.LargeSize, tb.HdrSize)
			}
			if y.IsLazy() != (tb.payloadSize() > 0) || x.IsLazy() {
				return harness.Failf("C08|MdatBox.IsLazy|wrong mode", "mdat at %d payload %d: in-memory IsLazy %v, lazy IsLazy %v", tb.Start, tb.payloadSize(), x.IsLazy(), y.IsLazy())
			}
			if y.IsLazy() && (y.GetLazyDataSize() != uint64(tb.payloadSize()) || len(y.Data) != 0) {
				return harness.Failf("C08|MdatBox.GetLazyDataSize|differs from the payload size", "mdat at %d: %d (len(Data) %d), payload %d", tb.Start, y.GetLazyDataSize(), len(y.Data), tb.payloadSize())
			}
			if !bytes.Equal(x.Data, file[tb.payloadStart():tb.Start+tb.Size]) {
				return harness.Failf("C08|DecodeFile|in-memory mdat data differs from the file", "mdat at %d", tb.Start)
			}
		case *mp4.MoofBox:
			p = &posd{"MoofBox.StartPos", x.StartPos, bl.(*mp4.MoofBox).StartPos}
		case *mp4.MoovBox:
			p = &posd{"MoovBox.StartPos", x.StartPos, bl.(*mp4.MoovBox).StartPos}
		case *mp4.MfraBox:
			p = &posd{"MfraBox.StartPos", x.StartPos, bl.(*mp4.MfraBox).StartPos}
		}
		if p != nil {
			st.queries += 2
			if p.n != uint64(tb.Start) || p.l != uint64(tb.Start) {
				return harness.Failf("C08|"+p.name+"|differs from the position in the file", "box %d: in-memory %d, lazy %d, file %d", i, p.n, p.l, tb.Start)
			}
		}
	}
	st.queries += 3
	if fN.IsFragmented() != fL.IsFragmented() {
		return harness.Failf("C08|File.IsFragmented|differs between the modes", "in-memory %v, lazy %v", fN.IsFragmented(), fL.IsFragmented())
	}
	// File.Size follows the encode mode (segment mode leaves out top-level boxes that belong to no segment): the
	// two modes agree, and the box-tree view is the size of the file
	if fL.Size() != fN.Size() {
		return harness.Failf("C08|File.Size|differs between the modes", "in-memory %d, lazy %d", fN.Size(), fL.Size())
	}
	modeN, modeL := fN.FragEncMode, fL.FragEncMode
	fN.FragEncMode, fL.FragEncMode = mp4.EncModeBoxTree, mp4.EncModeBoxTree
	sizeN, sizeL := fN.Size(), fL.Size()
	fN.FragEncMode, fL.FragEncMode = modeN, modeL
	if sizeL != sizeN || (!resized && sizeL != uint64(len(file))) {
		return harness.Failf("C08|File.Size|lazy: differs from the file size", "%d (in-memory %d), file %d", sizeL, sizeN, len(file))
	}
	if (fN.Mdat == nil) != (fL.Mdat == nil) || (fN.Moov == nil) != (fL.Moov == nil) || (fN.Init == nil) != (fL.Init == nil) || len(fN.Segments) != len(fL.Segments) || len(fN.Sidxs) != len(fL.Sidxs) {
		return harness.Failf("C08|DecodeFile|file structure differs between the modes", "Mdat %v/%v Moov %v/%v Init %v/%v segments %d/%d sidxs %d/%d",
			fN.Mdat != nil, fL.Mdat != nil, fN.Moov != nil, fL.Moov != nil, fN.Init != nil, fL.Init != nil, len(fN.Segments), len(fL.Segments), len(fN.Sidxs), len(fL.Sidxs))
	}
	if fN.Mdat != nil {
		in, il := -1, -1
		for i := range e.mdN {
			if e.mdN[i] == fN.Mdat {
				in = i
			}
			if e.mdL[i] == fL.Mdat {
				il = i
			}
		}
		if in != il {
			return harness.Failf("C08|DecodeFile|File.Mdat is a different box in the two modes", "in-memory mdat #%d, lazy mdat #%d", in, il)
		}
	}
	for si := range fN.Segments {
		sn, sl := fN.Segments[si], fL.Segments[si]
		if sn.StartPos != sl.StartPos || len(sn.Fragments) != len(sl.Fragments) {
			return harness.Failf("C08|DecodeFile|segment structure differs between the modes", "segment %d: start %d/%d fragments %d/%d", si, sn.StartPos, sl.StartPos, len(sn.Fragments), len(sl.Fragments))
		}
		for fi := range sn.Fragments {
			a, b := sn.Fragments[fi], sl.Fragments[fi]
			if a.StartPos != b.StartPos || len(a.Children) != len(b.Children) || (a.Mdat == nil) != (b.Mdat == nil) || (a.Moof == nil) != (b.Moof == nil) {
				return harness.Failf("C08|DecodeFile|fragment structure differs between the modes", "segment %d fragment %d: start %d/%d children %d/%d", si, fi, a.StartPos, b.StartPos, len(a.Children), len(b.Children))
			}
			if a.Mdat != nil && (a.Mdat.StartPos != b.Mdat.StartPos || a.Mdat.Size() != b.Mdat.Size()) {
				return harness.Failf("C08|DecodeFile|fragment structure differs between the modes", "segment %d fragment %d: mdat %d+%d / %d+%d", si, fi, a.Mdat.StartPos, a.Mdat.Size(), b.Mdat.StartPos, b.Mdat.Size())
			}
		}
	}
	infN, ierrN := info(fN)
	infL, ierrL := info(fL)
	st.queries += 2
	if (ierrN == nil) != (ierrL == nil) {
		return harness.Failf("C08|File.Info|error in one mode only", "in-memory: %v; lazy: %v", ierrN, ierrL)
	}
	if infN != infL {
		return harness.Failf("C08|File.Info|dump differs between the modes", "level %s: %s", infoLevel, firstDiff(infN, infL))
	}

	// ---- byte ranges
	for mi, md := range m.mdats {
		p := md.payloadSize()
		if p >= 1 && p <= exhaustiveMax {
			st.class("ranges:exhaustive")
			for off := 0; off < p; off++ {
				for size := 1; off+size <= p; size++ {
					if fail := e.checkRange(mi, int64(off), int64(size)); fail != nil {
						return fail
					}
				}
			}
		} else if p > exhaustiveMax {
			st.class("ranges:boundary+drawn")
			for _, r := range boundaryRanges(md, m.seams) {
				if fail := e.checkRange(mi, r[0], r[1]); fail != nil {
					return fail
				}
			}
		} else {
			st.class("mdat:empty-payload")
		}
		// ranges that leave the payload
		P := int64(p)
		tail := int64(len(file) - md.payloadStart())
		for _, r := range [][2]int64{{P, 1}, {P - 1, 2}, {0, P + 1}, {-1, 1}, {-1, 2}, {-int64(md.HdrSize), int64(md.HdrSize) + 1}, {P + 10, 5},
			{tail, 1}, {tail - 1, 2}, {0, tail + 100}, {P, tail - P + 1}} {
			if fail := e.checkRange(mi, r[0], r[1]); fail != nil {
				return fail
			}
		}
	}
	for _, r := range c.Ranges {
		if r.Mdat < 0 || r.Mdat >= len(m.mdats) {
			continue
		}
		if fail := e.checkRange(r.Mdat, r.Off, r.Size); fail != nil {
			return fail
		}
	}

	for _, h := range e.held {
		st.queries++
		if !bytes.Equal(h.got, h.want) {
			return harness.Failf("C08|MdatBox.ReadData|lazy: a slice returned earlier was changed by later reads", "%s: now %s, was %s", h.desc, harness.HexTrunc(h.got, 24), harness.HexTrunc(h.want, 24))
		}
	}

	// ---- the lazy mdat encodes as its header; header || copied payload is the box
	for mi, md := range m.mdats {
		var hdr bytes.Buffer
		st.queries++
		if err := e.mdL[mi].Encode(&hdr); err != nil {
			return harness.Failf("C08|MdatBox.Encode|lazy: error", "mdat at %d: %v", md.Start, err)
		}
		if !bytes.Equal(hdr.Bytes(), file[md.Start:md.payloadStart()]) {
			return harness.Failf("C08|MdatBox.Encode|lazy: output is not exactly the box header", "mdat at %d: wrote %s, header in the file %s", md.Start, harness.HexTrunc(hdr.Bytes(), 40), harness.HexTrunc(file[md.Start:md.payloadStart()], 16))
		}
		sw := bits.NewFixedSliceWriter(md.HdrSize + 8)
		st.queries++
		if err := e.mdL[mi].EncodeSW(sw); err != nil {
			return harness.Failf("C08|MdatBox.EncodeSW|lazy: error", "mdat at %d: %v", md.Start, err)
		}
		if !bytes.Equal(sw.Bytes(), file[md.Start:md.payloadStart()]) {
			return harness.Failf("C08|MdatBox.EncodeSW|lazy: output is not exactly the box header", "mdat at %d: wrote %s, header in the file %s", md.Start, harness.HexTrunc(sw.Bytes(), 40), harness.HexTrunc(file[md.Start:md.payloadStart()], 16))
		}
		if md.payloadSize() > 0 {
			st.queries++
			n, err := e.mdL[mi].CopyData(int64(md.payloadStart()), int64(md.payloadSize()), rs, &hdr)
			if err != nil || n != int64(md.payloadSize()) {
				return harness.Failf("C08|MdatBox.CopyData|lazy: error for the whole payload", "mdat at %d: n=%d, %v", md.Start, n, err)
			}
		}
		if !bytes.Equal(hdr.Bytes(), file[md.Start:md.Start+md.Size]) {
			return harness.Failf("C08|MdatBox.Encode|lazy: header followed by the copied payload is not the original box", "mdat at %d size %d", md.Start, md.Size)
		}
	}

	// ---- sample intervals (progressive)
	if m.prog && !fN.IsFragmented() && fN.Moov != nil && fN.Mdat != nil && len(fN.Moov.Traks) == len(m.samples) {
		if fail := e.checkSamples(fN, fL); fail != nil {
			return fail
		}
	}

	// ---- sample intervals of fragments (fragmented, harness-written)
	if m.ftruth != nil && fN.IsFragmented() && fN.Init != nil && fN.Init.Moov != nil {
		if fail := e.checkFragSamples(fN, fL); fail != nil {
			return fail
		}
	}

	// ---- whole-file encoding: the lazy output is the in-memory output without the mdat payloads
	modes := []mp4.EncFragFileMode{mp4.EncModeSegment}
	if fN.IsFragmented() {
		modes = append(modes, mp4.EncModeBoxTree)
	}
	for _, mode := range modes {
		fN.FragEncMode, fL.FragEncMode = mode, mode
		var bn, bl bytes.Buffer
		en, el := fN.Encode(&bn), fL.Encode(&bl)
		st.queries += 2
		if (en == nil) != (el == nil) {
			return harness.Failf("C08|File.Encode|error in one mode only", "enc mode %d: in-memory: %v; lazy: %v", mode, en, el)
		}
		if en != nil {
			st.class("encode:error-in-both-modes:" + errClass(en))
			continue
		}
		want, err := cutMdatPayloads(bn.Bytes())
		if err != nil {
			st.class("encode:in-memory-output-not-a-box-sequence")
			continue
		}
		if !bytes.Equal(bl.Bytes(), want) {
			return harness.Failf("C08|File.Encode|lazy output differs from the in-memory output without mdat payloads", "enc mode %d: lazy %d bytes, expected %d bytes; first difference at %d", mode, bl.Len(), len(want), diffAt(bl.Bytes(), want))
		}
		swN, swL := bits.NewFixedSliceWriter(int(fN.Size())+16), bits.NewFixedSliceWriter(int(fL.Size())+16)
		en, el = fN.EncodeSW(swN), fL.EncodeSW(swL)
		st.queries += 2
		if (en == nil) != (el == nil) {
			return harness.Failf("C08|File.EncodeSW|error in one mode only", "enc mode %d: in-memory: %v; lazy: %v", mode, en, el)
		}
		if en != nil {
			st.class("encodeSW:error-in-both-modes:" + errClass(en))
			continue
		}
		want, err = cutMdatPayloads(swN.Bytes())
		if err == nil && !bytes.Equal(swL.Bytes(), want) {
			return harness.Failf("C08|File.EncodeSW|lazy output differs from the in-memory output without mdat payloads", "enc mode %d: lazy %d bytes, expected %d bytes; first difference at %d", mode, len(swL.Bytes()), len(want), diffAt(swL.Bytes(), want))
		}
	}
	return nil
}

func errClass(err error) string {
	s := err.Error()
	out := make([]byte, 0, len(s))
	for i := 0; i < len(s) && len(out) < 48; i++ {
		if s[i] >= '0' && s[i] <= '9' {
			if n := len(out); n == 0 || out[n-1] != 'N' {
				out = append(out, 'N')
			}
			continue
		}
		out = append(out, s[i])
	}
	return string(out)
}

func diffAt(a, b []byte) int {
	for i := 0; i < len(a) && i < len(b); i++ {
		if a[i] != b[i] {
			return i
		}
	}
	if len(a) < len(b) {
		return len(a)
	}
	return len(b)
}

func cutMdatPayloads(data []byte) ([]byte, error) {
	top, err := walkTop(data)
	if err != nil {
		return nil, err
	}
	var out []byte
	for _, b := range top {
		if b.Type == "mdat" {
			out = append(out, data[b.Start:b.payloadStart()]...)
		} else {
			out = append(out, data[b.Start:b.Start+b.Size]...)
		}
	}
	return out, nil
}

// boundaryRanges: first byte, last byte, whole payload, and everything around the chunk/run seams.
func boundaryRanges(md topBox, seams []int) [][2]int64 {
	P := int64(md.payloadSize())
	out := [][2]int64{{0, 1}, {P - 1, 1}, {0, P}, {0, 2}, {P - 2, 2}, {1, P - 1}, {0, P - 1}, {1, P - 2}, {P / 2, 1}, {P / 3, P / 3}, {0, P / 2}, {P / 2, P - P/2}}
	add := func(off, size int64) {
		if off >= 0 && size >= 1 && off+size <= P {
			out = append(out, [2]int64{off, size})
		}
	}
	lo, hi := md.payloadStart(), md.payloadStart()+md.payloadSize()
	n := 0
	prev := int64(-1)
	for _, s := range seams {
		if s <= lo || s >= hi || n >= 64 {
			continue
		}
		o := int64(s - lo)
		if o == prev {
			continue
		}
		add(o-1, 2)
		add(o-2, 4)
		add(o-1, 1)
		add(o, 1)
		add(0, o)
		add(0, o+1)
		add(o, P-o)
		add(o-1, P-o+1)
		if prev >= 0 {
			add(prev, o-prev)     // exactly one chunk
			add(prev-1, o-prev+2) // one chunk and a byte on either side
		}
		prev = o
		n++
	}
	return out
}

func (e *evalCtx) checkRange(mi int, off, size int64) *harness.Fail {
	md := e.m.mdats[mi]
	start := int64(md.payloadStart()) + off
	if start < 0 || size < 1 || size > int64(len(e.m.file))+4096 {
		return nil // not a query of the domain
	}
	P := int64(md.payloadSize())
	valid := off >= 0 && off+size <= P
	var want []byte
	if valid {
		want = e.m.file[start : start+size]
	}
	insideFile := start+size <= int64(len(e.m.file))
	for mode := 0; mode < 3; mode++ {
		box, name := e.mdN[mi], "in-memory"
		var rs io.ReadSeeker
		if mode == 1 {
			box, name, rs = e.mdL[mi], "lazy", e.rs
		}
		if mode == 2 {
			// the same through a reader that delivers a few bytes per Read call
			if (off+size)%4 != 0 || size > 1<<16 {
				continue
			}
			box, name, rs = e.mdL[mi], "lazy", &shortRS{r: e.rs, max: 1 + int(off%5)}
			e.st.class("reader-with-short-reads")
		}
		switch {
		case mode == 0 && valid && off+size == P && e.c.avoid(e.st, "inmem-range-ending-at-last-payload-byte"):
			continue
		case mode >= 1 && !valid && insideFile && box.IsLazy() && e.c.avoid(e.st, "lazy-range-outside-payload-not-refused"):
			continue
		}
		desc := func() string {
			return fmt.Sprintf("%s mdat #%d (box at %d, header %d, payload %d..%d): start=%d size=%d (payload offset %d)", name, mi, md.Start, md.HdrSize, md.payloadStart(), md.payloadStart()+md.payloadSize()-1, start, size, off)
		}
		e.st.queries += 2
		var got []byte
		var err error
		if rs != nil {
			got, err = box.ReadData(start, size, rs)
		} else {
			got, err = box.ReadData(start, size, nil)
		}
		if fail := e.judge("MdatBox.ReadData", name, valid, off+size == P, want, got, int64(len(got)), err, desc); fail != nil {
			return fail
		}
		if mode == 1 && valid && err == nil && len(e.held) < 64 {
			e.held = append(e.held, heldRead{got, want, desc()})
		}
		e.out.Reset()
		var n int64
		if rs != nil {
			n, err = box.CopyData(start, size, rs, &e.out)
		} else {
			n, err = box.CopyData(start, size, nil, &e.out)
		}
		if fail := e.judge("MdatBox.CopyData", name, valid, off+size == P, want, e.out.Bytes(), n, err, desc); fail != nil {
			return fail
		}
	}
	return nil
}

func (e *evalCtx) judge(fn, mode string, valid, toLast bool, want, got []byte, n int64, err error, desc func() string) *harness.Fail {
	if valid {
		if err != nil {
			rel := "error for a range inside the payload"
			if toLast {
				rel = "error for a range that ends at the last payload byte"
			}
			return harness.Failf("C08|"+fn+"|"+mode+": "+rel, "%s: %v", desc(), err)
		}
		if !bytes.Equal(got, want) {
			return harness.Failf("C08|"+fn+"|"+mode+": bytes differ from the file", "%s: got %s, file has %s", desc(), harness.HexTrunc(got, 32), harness.HexTrunc(want, 32))
		}
		if n != int64(len(want)) {
			return harness.Failf("C08|"+fn+"|"+mode+": reported length differs", "%s: reported %d", desc(), n)
		}
		return nil
	}
	if err == nil {
		return harness.Failf("C08|"+fn+"|"+mode+": no error for a range outside the payload", "%s: returned %d bytes %s", desc(), len(got), harness.HexTrunc(got, 24))
	}
	return nil
}

// workBufs: nil, 1, 2, 3, 7, 16, 4096, larger than the range, and the drawn one.
func workBufs(total, extra int) [][]byte {
	sizes := []int{0, 1, 2, 3, 7, 16, 4096, total + 1}
	if extra > 0 {
		sizes = append(sizes, extra)
	}
	out := make([][]byte, len(sizes))
	for i, s := range sizes {
		if s > 0 {
			out[i] = make([]byte, s)
		}
	}
	return append(out, []byte{}) // empty but not nil
}

func (e *evalCtx) checkSamples(fN, fL *mp4.File) *harness.Fail {
	c, st, m := e.c, e.st, e.m
	for ti := range m.samples {
		refs := m.samples[ti]
		n := len(refs)
		if n == 0 {
			continue
		}
		var all []byte
		pos := make([]int, n+1)
		for i, r := range refs {
			all = append(all, m.file[r.off:r.off+r.size]...)
			pos[i+1] = len(all)
		}
		trN, trL := fN.Moov.Traks[ti], fL.Moov.Traks[ti]
		bufs := workBufs(len(all), c.WorkBuf)
		one := func(a, b uint32, which []int) *harness.Fail {
			want := all[pos[a-1]:pos[b]]
			e.out.Reset()
			st.queries++
			if err := fN.CopySampleData(&e.out, nil, trN, a, b, nil); err != nil {
				return harness.Failf("C08|File.CopySampleData|in-memory: error for a valid interval", "track %d samples %d..%d of %d: %v", ti, a, b, n, err)
			}
			if !bytes.Equal(e.out.Bytes(), want) {
				return harness.Failf("C08|File.CopySampleData|in-memory: copied bytes differ from the samples", "track %d samples %d..%d of %d: wrote %d bytes %s, the samples are %d bytes %s", ti, a, b, n, e.out.Len(), harness.HexTrunc(e.out.Bytes(), 32), len(want), harness.HexTrunc(want, 32))
			}
			for _, wi := range which {
				ws := bufs[wi]
				e.out.Reset()
				st.queries++
				var rs io.ReadSeeker = e.rs
				if (int(a)+int(b)+wi)%3 == 0 {
					rs = &shortRS{r: e.rs, max: 1 + (int(a)+wi)%7}
					st.class("reader-with-short-reads")
				}
				if err := fL.CopySampleData(&e.out, rs, trL, a, b, ws); err != nil {
					return harness.Failf("C08|File.CopySampleData|lazy: error for a valid interval", "track %d samples %d..%d of %d, work buffer %d: %v", ti, a, b, n, len(ws), err)
				}
				if !bytes.Equal(e.out.Bytes(), want) {
					return harness.Failf("C08|File.CopySampleData|lazy: copied bytes differ from the samples", "track %d samples %d..%d of %d, work buffer %d: wrote %d bytes %s, the samples are %d bytes %s", ti, a, b, n, len(ws), e.out.Len(), harness.HexTrunc(e.out.Bytes(), 32), len(want), harness.HexTrunc(want, 32))
				}
			}
			return nil
		}
		allBufs := make([]int, len(bufs))
		for i := range allBufs {
			allBufs[i] = i
		}
		// the whole track with every work buffer, for every track
		if fail := one(1, uint32(n), allBufs); fail != nil {
			return fail
		}
		if ti != c.TrackIndex && !c.repoLike() {
			continue
		}
		if n <= allIntervalsMax {
			st.class("intervals:all")
			for a := uint32(1); a <= uint32(n); a++ {
				for b := a; b <= uint32(n); b++ {
					which := allBufs
					if n > 8 && !(a == 1 || b == uint32(n)) {
						k := int(a*7+b) % len(bufs)
						which = []int{k, (k + 3) % len(bufs)}
					}
					if fail := one(a, b, which); fail != nil {
						return fail
					}
				}
			}
		} else {
			st.class("intervals:boundary+drawn")
			N := uint32(n)
			ivs := [][2]uint32{{1, 1}, {N, N}, {1, 2}, {N - 1, N}, {2, N}, {1, N - 1}, {N / 2, N/2 + 1}, {N / 3, 2 * N / 3}}
			if !c.repoLike() || ti == 0 {
				ivs = append(ivs, c.Intervals...)
			}
			for k, iv := range ivs {
				if iv[0] < 1 || iv[0] > iv[1] || iv[1] > N {
					continue
				}
				which := allBufs
				if k >= 8 {
					which = []int{k % len(bufs), (k + 3) % len(bufs)}
				}
				if fail := one(iv[0], iv[1], which); fail != nil {
					return fail
				}
			}
		}
		// intervals outside 1..N must be refused in both modes
		for _, iv := range [][2]uint32{{0, uint32(n)}, {1, uint32(n) + 1}} {
			st.queries += 2
			e.out.Reset()
			if err := fN.CopySampleData(&e.out, nil, trN, iv[0], iv[1], nil); err == nil {
				return harness.Failf("C08|File.CopySampleData|in-memory: no error for an interval outside the samples", "track %d samples %d..%d of %d", ti, iv[0], iv[1], n)
			}
			if err := fL.CopySampleData(&e.out, e.rs, trL, iv[0], iv[1], bufs[4]); err == nil {
				return harness.Failf("C08|File.CopySampleData|lazy: no error for an interval outside the samples", "track %d samples %d..%d of %d", ti, iv[0], iv[1], n)
			}
		}
	}
	return nil
}

func layoutFrags(l *fragbuild.FileLayout) []fragbuild.Frag {
	var out []fragbuild.Frag
	for _, sg := range l.Segments {
		out = append(out, sg.Frags...)
	}
	return out
}

// shortRS is a ReadSeeker that returns at most max bytes per Read call (io.Reader allows that: "Read reads up
// to len(p) bytes"): a caller must not take one Read for a full buffer.
type shortRS struct {
	r   *bytes.Reader
	max int
}

func (s *shortRS) Read(p []byte) (int, error) {
	if len(p) > s.max {
		p = p[:s.max]
	}
	return s.r.Read(p)
}
func (s *shortRS) Seek(off int64, whence int) (int64, error) { return s.r.Seek(off, whence) }

// checkFragSamples: Fragment.GetSampleInterval (documented for both modes: the data itself in memory, offset
// and size for a lazy mdat, to be read with MdatBox.ReadData) and Fragment.GetFullSamples (in-memory data; on
// a lazy mdat either an error or the same samples, not a crash) for every fragment the writer laid out as one
// traf with one trun, against the sample model.
func (e *evalCtx) checkFragSamples(fN, fL *mp4.File) *harness.Fail {
	c, st, m := e.c, e.st, e.m
	var fragsN, fragsL []*mp4.Fragment
	for si := range fN.Segments {
		fragsN = append(fragsN, fN.Segments[si].Fragments...)
		fragsL = append(fragsL, fL.Segments[si].Fragments...)
	}
	var truths []fragbuild.FragTruth
	for _, sg := range m.ftruth.Segments {
		truths = append(truths, sg.Frags...)
	}
	if len(fragsN) != len(truths) || len(fragsL) != len(truths) {
		st.class("fragsamples:fragment-count-differs-from-layout")
		return nil
	}
	for k, ft := range truths {
		frN, frL := fragsN[k], fragsL[k]
		if frN.Moof == nil || frN.Mdat == nil || frL.Moof == nil || frL.Mdat == nil {
			continue
		}
		opts := layoutFrags(c.FLayout)[k].Opts
		seenTrack := map[int]bool{}
		for _, run := range ft.Runs {
			if run.Trun != 0 {
				continue
			}
			// GetFullSamples(trex) looks at the FIRST traf of the track in the fragment
			if seenTrack[run.Track] {
				st.class("fragsamples:further-traf-of-the-same-track-not-queried")
				continue
			}
			seenTrack[run.Track] = true
			if opts.Base == 2 && run.Traf > 0 {
				// neither base-data-offset nor default-base-is-moof: the data offsets of a second traf count from the end
				// of the data of the preceding traf (14496-12 8.8.7.1); the sample accessors of a fragment take the moof
				// start for every traf. Reading such third-party layouts is no clause of C08: not queried.
				st.class("fragsamples:legacy-base-in-second-traf-not-queried")
				continue
			}
			// GetFullSamples(trex) returns the samples of all truns of the track's traf: collect the model's
			tr := &c.FTracks[run.Track]
			var trexN, trexL *mp4.TrexBox
			if mv := fN.Init.Moov.Mvex; mv != nil {
				trexN, _ = mv.GetTrex(tr.ID)
			}
			if mv := fL.Init.Moov.Mvex; mv != nil {
				trexL, _ = mv.GetTrex(tr.ID)
			}
			if trexN == nil || trexL == nil {
				return harness.Failf("C08|DecodeFile|no trex for a track of the file", "track %d", tr.ID)
			}
			var runs []fragbuild.RunTruth
			for _, r := range ft.Runs {
				if r.Track == run.Track && r.Traf == run.Traf {
					runs = append(runs, r)
				}
			}
			var model []fragbuild.Sample
			var times []uint64
			for _, r := range runs {
				for i := r.First; i < r.First+r.N; i++ {
					model = append(model, tr.Samples[i])
					times = append(times, tr.DecodeTime(i))
				}
			}
			st.queries += 2
			st.class("fragsamples:GetFullSamples")
			fsN, err := frN.GetFullSamples(trexN)
			if err != nil {
				return harness.Failf("C08|Fragment.GetFullSamples|in-memory: error on a valid fragment", "fragment %d track %d: %v", k, tr.ID, err)
			}
			if len(fsN) != len(model) {
				return harness.Failf("C08|Fragment.GetFullSamples|in-memory: number of samples differs", "fragment %d track %d: %d, model %d", k, tr.ID, len(fsN), len(model))
			}
			for i := range model {
				if !bytes.Equal(fsN[i].Data, model[i].Data) || fsN[i].DecodeTime != times[i] || fsN[i].Dur != model[i].Dur || fsN[i].CompositionTimeOffset != model[i].Cto {
					return harness.Failf("C08|Fragment.GetFullSamples|in-memory: sample differs from the model", "fragment %d track %d sample %d: time %d dur %d cto %d data %s; model time %d dur %d cto %d data %s", k, tr.ID, i+1,
						fsN[i].DecodeTime, fsN[i].Dur, fsN[i].CompositionTimeOffset, harness.HexTrunc(fsN[i].Data, 16), times[i], model[i].Dur, model[i].Cto, harness.HexTrunc(model[i].Data, 16))
				}
			}
			var fsL []mp4.FullSample
			var errL error
			var crash interface{}
			func() {
				defer func() { crash = recover() }()
				fsL, errL = frL.GetFullSamples(trexL)
			}()
			total := 0
			for i := range model {
				total += len(model[i].Data)
			}
			switch {
			case crash != nil:
				if total > 0 {
					return harness.Failf("C08|Fragment.GetFullSamples|lazy: panic", "fragment %d track %d (%d samples, %d bytes): %v", k, tr.ID, len(model), total, crash)
				}
			case errL != nil:
				st.class("fragsamples:GetFullSamples-refused-on-lazy-mdat")
			default:
				if len(fsL) != len(model) {
					return harness.Failf("C08|Fragment.GetFullSamples|lazy: number of samples differs", "fragment %d track %d: %d, model %d", k, tr.ID, len(fsL), len(model))
				}
				for i := range model {
					if !bytes.Equal(fsL[i].Data, model[i].Data) {
						return harness.Failf("C08|Fragment.GetFullSamples|lazy: neither an error nor the sample data", "fragment %d track %d sample %d: %d bytes, model %d bytes", k, tr.ID, i+1, len(fsL[i].Data), len(model[i].Data))
					}
				}
			}

			// GetSampleInterval: one traf with one trun only
			if len(ft.Runs) != 1 || len(frN.Moof.Trafs) != 1 || len(frN.Moof.Traf.Truns) != 1 {
				continue
			}
			st.class("fragsamples:GetSampleInterval")
			n := uint32(len(model))
			pos := make([]int, n+1)
			var all []byte
			for i := range model {
				all = append(all, model[i].Data...)
				pos[i+1] = len(all)
			}
			var ivs [][2]uint32
			if n <= 10 {
				for a := uint32(1); a <= n; a++ {
					for b := a; b <= n; b++ {
						ivs = append(ivs, [2]uint32{a, b})
					}
				}
			} else {
				ivs = [][2]uint32{{1, 1}, {n, n}, {1, n}, {2, n}, {1, n - 1}, {n / 2, n/2 + 1}, {n / 3, 2 * n / 3}}
			}
			for qi, iv := range ivs {
				a, b := iv[0], iv[1]
				want := all[pos[a-1]:pos[b]]
				absWant := run.DataOffset + uint64(pos[a-1])
				for mode := 0; mode < 2; mode++ {
					fr, trex, name := frN, trexN, "in-memory"
					if mode == 1 {
						fr, trex, name = frL, trexL, "lazy"
					}
					st.queries++
					si, err := fr.GetSampleInterval(trex, a, b)
					if err != nil {
						return harness.Failf("C08|Fragment.GetSampleInterval|"+name+": error for a valid interval", "fragment %d samples %d..%d of %d: %v", k, a, b, n, err)
					}
					abs := fr.Mdat.PayloadAbsoluteOffset() + uint64(si.OffsetInMdat)
					if int(si.Size) != len(want) || abs != absWant || si.FirstDecodeTime != times[a-1] || len(si.Samples) != int(b-a+1) {
						return harness.Failf("C08|Fragment.GetSampleInterval|"+name+": interval differs from the model", "fragment %d samples %d..%d of %d: size %d at file offset %d time %d (%d samples); model size %d at %d time %d",
							k, a, b, n, si.Size, abs, si.FirstDecodeTime, len(si.Samples), len(want), absWant, times[a-1])
					}
					if mode == 0 {
						if !bytes.Equal(si.Data, want) {
							return harness.Failf("C08|Fragment.GetSampleInterval|in-memory: data differs from the samples", "fragment %d samples %d..%d of %d: %s, model %s", k, a, b, n, harness.HexTrunc(si.Data, 24), harness.HexTrunc(want, 24))
						}
						continue
					}
					if len(want) == 0 || !fr.Mdat.IsLazy() {
						continue
					}
					var rs io.ReadSeeker = e.rs
					if qi%2 == 1 {
						rs = &shortRS{r: e.rs, max: 1 + qi%5}
						st.class("reader-with-short-reads")
					}
					st.queries++
					got, err := fr.Mdat.ReadData(int64(abs), int64(si.Size), rs)
					if err != nil || !bytes.Equal(got, want) {
						return harness.Failf("C08|Fragment.GetSampleInterval|lazy: reading the interval with MdatBox.ReadData does not give the samples", "fragment %d samples %d..%d of %d, offset %d size %d: %v, got %s, model %s", k, a, b, n, abs, si.Size, err, harness.HexTrunc(got, 24), harness.HexTrunc(want, 24))
					}
				}
			}
		}
	}
	return nil
}

// ---------------------------------------------------------------------------------------------
// generators, evidence

func genRanges(t *rapid.T, m *material) []rangeQ {
	var out []rangeQ
	for mi, md := range m.mdats {
		P := md.payloadSize()
		if P <= exhaustiveMax {
			continue
		}
		k := rapid.IntRange(4, 24).Draw(t, "nRanges")
		for i := 0; i < k; i++ {
			off := rapid.IntRange(0, P-1).Draw(t, "off")
			var size int
			switch rapid.IntRange(0, 3).Draw(t, "sizeKind") {
			case 0:
				size = P - off // to the last byte
			case 1:
				size = rapid.IntRange(1, 4).Draw(t, "size")
				if off+size > P {
					size = P - off
				}
			default:
				size = rapid.IntRange(1, P-off).Draw(t, "size")
			}
			out = append(out, rangeQ{mi, int64(off), int64(size)})
		}
		// some outside the payload
		for i := 0; i < 3; i++ {
			off := rapid.IntRange(-md.payloadStart(), P+20).Draw(t, "badOff")
			size := rapid.IntRange(1, P+20).Draw(t, "badSize")
			out = append(out, rangeQ{mi, int64(off), int64(size)})
		}
	}
	return out
}

func genProg(t *rapid.T) lazyCase {
	opt := mp4build.GenOpt{MaxSamples: harness.Pick(30, 60), AllowZeroSize: true}
	switch rapid.IntRange(0, 3).Draw(t, "sizeClass") {
	case 0: // payloads small enough for the exhaustive range sweep
		opt.MaxTracks, opt.MaxSamples, opt.MaxSampleSize = 2, 6, 8
	case 1:
		opt.MaxSamples, opt.MaxSampleSize = allIntervalsMax, 20
	}
	tracks := mp4build.GenTracks(t, opt)
	lay := mp4build.GenProgLayout(t, tracks)
	mp4build.GenEmptyChunkAt(t, &lay)
	c := lazyCase{Kind: "prog", Tracks: tracks, Layout: &lay}
	c.TrackIndex = rapid.IntRange(0, len(tracks)-1).Draw(t, "trackIndex")
	if n := len(tracks[c.TrackIndex].Samples); n > allIntervalsMax {
		for i := 0; i < 40; i++ {
			a := rapid.IntRange(1, n).Draw(t, "a")
			b := rapid.IntRange(a, n).Draw(t, "b")
			c.Intervals = append(c.Intervals, [2]uint32{uint32(a), uint32(b)})
		}
	}
	c.WorkBuf = rapid.IntRange(1, 200).Draw(t, "workBuf")
	m, fail := materialise(&c)
	if fail != nil {
		t.Fatalf("%s: %s", fail.Key, fail.Msg)
	}
	c.Ranges = genRanges(t, m)
	return c
}

func genFrag(t *rapid.T) lazyCase {
	v, a, err := fragStsd()
	if err != nil {
		t.Fatalf("harvest: %v", err)
	}
	// NoNonEmsgAtTopSidxAnchor: mp4.DecodeFile panics on a non-emsg box at the anchor of a top-level sidx in
	// both modes (finding of the fragment checks, reproducer internal/fragbuild TestLibDisagreements/topsidx-then-prft)
	opt := fragbuild.GenOpt{VideoStsd: v, AudioStsd: a, NoNonEmsgAtTopSidxAnchor: true, MaxSamples: harness.Pick(8, 12)}
	tracks := fragbuild.GenTracks(t, opt)
	lay := fragbuild.GenLayout(t, tracks, opt)
	c := lazyCase{Kind: "frag", FTracks: tracks, FLayout: &lay}
	m, fail := materialise(&c)
	if fail != nil {
		t.Fatalf("%s: %s", fail.Key, fail.Msg)
	}
	c.Ranges = genRanges(t, m)
	return c
}

func classify(c *lazyCase, m *material) (nontrivial bool, classes []string) {
	classes = append(classes, "kind-"+c.Kind)
	add := func(cond bool, yes, no string) {
		if cond && yes != "" {
			classes = append(classes, yes)
		}
		if !cond && no != "" {
			classes = append(classes, no)
		}
	}
	large, seamInside, small, big, empty := false, false, false, false, false
	for _, md := range m.mdats {
		large = large || md.HdrSize == 16
		P := md.payloadSize()
		small = small || (P >= 1 && P <= exhaustiveMax)
		big = big || P > exhaustiveMax
		empty = empty || P == 0
		for _, s := range m.seams {
			if s > md.payloadStart() && s < md.payloadStart()+P {
				seamInside = true
			}
		}
	}
	add(large, "mdat-largesize-header", "")
	add(small, "mdat-payload<=96-all-ranges", "")
	add(big, "mdat-payload>96", "")
	add(empty, "mdat-empty", "")
	add(len(m.mdats) > 1, "several-mdat", "")
	add(seamInside, "seam-inside-payload", "")
	if c.Kind == "prog" {
		add(c.Layout.MdatFirst, "mdat-before-moov", "mdat-after-moov")
		add(c.Layout.GapBytes != nil, "gaps-between-chunks", "")
		add(len(c.Tracks) > 1, "multi-track", "")
		n := len(c.Tracks[c.TrackIndex].Samples)
		add(n <= allIntervalsMax, "N<=24-all-intervals", "N>24-drawn-intervals")
		co64 := false
		for _, tl := range c.Layout.Tracks {
			co64 = co64 || tl.Co64
		}
		add(co64, "co64", "")
		emptyChunk := false
		for ti, tl := range c.Layout.Tracks {
			k := 0
			for _, cs := range tl.ChunkSizes {
				bytesInChunk := 0
				for j := 0; j < cs; j++ {
					bytesInChunk += len(c.Tracks[ti].Samples[k+j].Data)
				}
				k += cs
				emptyChunk = emptyChunk || (cs > 0 && bytesInChunk == 0)
			}
		}
		add(emptyChunk, "chunk-without-bytes", "")
		add(emptyChunk && c.Layout.EmptyChunkAt != 0, fmt.Sprintf("chunk-without-bytes-placed-outside-mdat-%d", c.Layout.EmptyChunkAt), "")
	}
	if c.Kind == "frag" {
		classes = append(classes, fragbuild.Classes(c.FTracks, *c.FLayout)...)
	}
	// every case evaluates the ranges that touch the first and the last payload byte of every non-empty mdat;
	// non-trivial additionally asks for a seam inside a payload or a 64-bit header
	nontrivial = (small || big) && (seamInside || large)
	return
}

func record(c *lazyCase, st *stats) {
	harness.Rec.ClassN("queries", st.queries)
	var names []string
	for name := range st.skipped {
		names = append(names, name)
	}
	sort.Strings(names)
	for _, name := range names {
		harness.Rec.Exclude(name)
		harness.Rec.ClassN("skipped-arguments:"+name, st.skipped[name])
	}
	names = names[:0]
	for name := range st.classes {
		names = append(names, name)
	}
	sort.Strings(names)
	for _, name := range names {
		harness.Rec.Class(name)
	}
}

// TestLazyMdat: harness-written progressive (mp4build) and fragmented (fragbuild) files.
func TestLazyMdat(t *testing.T) {
	harness.RunRapid(t, "lazymdat", func(rt *rapid.T) {
		var c lazyCase
		switch k := rapid.IntRange(0, 4).Draw(rt, "kind"); {
		case k == 0:
			c = genFrag(rt)
		case k == 1:
			// grammar-generated files: every box type, 64-bit size headers at any level, extra and empty boxes
			kind := rapid.SampledFrom([]string{"prog", "prog", "frag", "media", "init"}).Draw(rt, "synthKind")
			c = lazyCase{Kind: "synth", Data: boxgen.File(rt, kind, boxgen.Opt{}), WorkBuf: rapid.IntRange(1, 200).Draw(rt, "workBuf")}
		default:
			c = genProg(rt)
		}
		raw, _ := json.Marshal(c)
		m, fail := materialise(&c)
		if fail != nil {
			rt.Fatalf("%s: %s", fail.Key, fail.Msg)
		}
		if m == nil {
			rt.Fatalf("harness|c08|generated file is not a box sequence")
		}
		nt, classes := classify(&c, m)
		harness.Rec.Case(nt, raw, classes...)
		if harness.Rec.WantSample() && nt && len(raw) < 6000 {
			harness.Rec.Sample(map[string]interface{}{"kind": "lazymdat", "case": c})
		}
		var st stats
		f := harness.Guarded(func() *harness.Fail { return evalLazy(&c, &st) })
		record(&c, &st)
		harness.Report(rt, "lazymdat", c, f)
	})
}

// TestLazyRepoFiles: every media file below a testdata directory of the checkout (enumerated, sharded).
func TestLazyRepoFiles(t *testing.T) {
	files := boxwalk.MediaFiles(harness.E.RepoDir, boxwalk.Mp4Exts, 8<<20)
	if len(files) == 0 {
		t.Fatalf("no media files below %s", harness.E.RepoDir)
	}
	evaluated := 0
	for i, mf := range files {
		if i%harness.E.NShards != harness.E.Shard {
			continue
		}
		rel, err := filepath.Rel(harness.E.RepoDir, mf.Path)
		if err != nil {
			t.Fatal(err)
		}
		c := lazyCase{Kind: "repo", Path: rel, WorkBuf: 100}
		// deterministic extra intervals for long tracks
		for k := uint32(1); k <= 20; k++ {
			c.Intervals = append(c.Intervals, [2]uint32{k * 3, k*5 + 7})
		}
		var st stats
		f := harness.Guarded(func() *harness.Fail { return evalLazy(&c, &st) })
		nt := false
		if m, fail := materialise(&c); fail == nil && m != nil && len(m.mdats) > 0 && !st.classes["repo:undecodable-in-both-modes"] {
			nt = true
			evaluated++
		}
		harness.Rec.CaseDistinct(nt, "kind-repo")
		record(&c, &st)
		harness.ReportDirect(t, "lazymdat", c, f)
	}
	if harness.E.NShards == 1 {
		harness.Rec.Exhaustive("media files below testdata directories of the checkout")
	}
	t.Logf("%d files in this shard with at least one mdat evaluated", evaluated)
}

// ---------------------------------------------------------------------------------------------
// reproducers of the known findings (regenerate with VERIF_C08_WRITE_KF=1 go test -tags verif ./props/c08 -run TestWriteKnownFindingRepros)

func minimalProg(ranges ...rangeQ) lazyCase {
	v, _, err := mp4build.DefaultStsd()
	if err != nil {
		panic(err)
	}
	tr := mp4build.Track{ID: 1, Timescale: 1000, Handler: "vide", StsdRaw: v, Width: 16, Height: 16,
		Samples: []mp4build.Sample{{Data: []byte{0xa1, 0xa2}, Dur: 1, Sync: true}, {Data: []byte{0xb1, 0xb2}, Dur: 1, Sync: true}}}
	lay := mp4build.ProgLayout{Tracks: []mp4build.TrackLayout{{ChunkSizes: []int{2}, CttsVersion: -1}}, MovieTimescale: 1000, MdatFirst: true}
	lay.ChunkOrder = mp4build.SequentialChunkOrder(lay.Tracks)
	return lazyCase{Kind: "prog", Tracks: []mp4build.Track{tr}, Layout: &lay, Ranges: ranges, NoAvoid: true}
}

func knownFindingCases() map[string]lazyCase {
	out := map[string]lazyCase{}
	for _, name := range []string{"inmem-range-ending-at-last-payload-byte", "lazy-range-outside-payload-not-refused"} {
		c := minimalProg()
		c.NoAvoidOnly = []string{name}
		out[name] = c
	}
	return out
}

func TestWriteKnownFindingRepros(t *testing.T) {
	if os.Getenv("VERIF_C08_WRITE_KF") == "" {
		t.Skip("VERIF_C08_WRITE_KF not set")
	}
	dir := harness.E.VerifDir + "/replay/C08"
	if err := os.MkdirAll(dir, 0o755); err != nil {
		t.Fatal(err)
	}
	for name, c := range knownFindingCases() {
		c := c
		f := harness.Guarded(func() *harness.Fail { return checkLazy(c) })
		if f == nil {
			t.Errorf("%s: the case does not fail (defect repaired?)", name)
			continue
		}
		raw, _ := json.Marshal(c)
		msg := f.Msg
		if i := strings.Index(msg, "\n"); i > 0 {
			msg = msg[:i]
		}
		b, _ := json.MarshalIndent(harness.ReplayFile{Property: "C08", Kind: "lazymdat", Key: f.Key, Msg: msg, Case: raw}, "", " ")
		if err := os.WriteFile(dir+"/kf-"+name+".json", append(b, '\n'), 0o644); err != nil {
			t.Fatal(err)
		}
		t.Logf("%s: %s: %s", name, f.Key, msg)
	}
}
