package c08

// Lazy mode on files that cannot be held in memory: a progressive file written by the harness (moov first,
// co64 tables) is inflated VIRTUALLY: a run of G filler bytes is inserted into the mdat payload in front of a
// drawn chunk, the mdat size field and the chunk offsets behind the insertion point are patched, and the
// file is served by an io.ReadSeeker that synthesises the filler on demand. G is drawn so that the payload
// size, the box size or the absolute offsets land on the 2^31 / 2^32 boundaries (largest payload of a 32-bit
// size field and its neighbours, first payloads that need the 64-bit form, offsets beyond 4 GiB).
// The in-memory mode cannot run here; the reference is the virtual file itself (what the property anchors
// both modes to) plus the box tree of the small file decoded in memory, which differs from the virtual one
// only in the mdat size and the patched chunk offsets.

import (
	"bytes"
	"encoding/binary"
	"encoding/json"
	"fmt"
	"io"
	"testing"

	"github.com/Eyevinn/mp4ff/mp4"
	"pgregory.net/rapid"

	"verif/internal/harness"
	"verif/internal/mp4build"
)

type hugeCase struct {
	Tracks     []mp4build.Track    `json:"tracks"`
	Layout     mp4build.ProgLayout `json:"layout"`
	GapAtChunk int                 `json:"gap_at_chunk"` // index into Layout.ChunkOrder; == len: at the end of the payload
	Gap        uint64              `json:"gap"`
	PreTouch   int                 `json:"pre_touch"` // 0 nothing, 1 Size(), 2 Encode, 3 Info, 4 File.Size() before the reads
	WorkBuf    int                 `json:"work_buf"`
}

func init() { harness.RegisterReplay("lazyhuge", harness.Replayer(checkHuge)) }

// virtualFile serves prefix | G filler bytes | suffix.
type virtualFile struct {
	prefix, suffix []byte
	gap            uint64
	pos            int64
	served         int64 // bytes handed out by Read
	maxRead        int   // longest single Read request seen
}

func fillerByte(off uint64) byte { return byte((off*0x9E3779B97F4A7C15)>>56) ^ byte(off>>29) }

func (v *virtualFile) size() int64 { return int64(len(v.prefix)) + int64(v.gap) + int64(len(v.suffix)) }

func (v *virtualFile) at(off uint64) byte {
	switch {
	case off < uint64(len(v.prefix)):
		return v.prefix[off]
	case off < uint64(len(v.prefix))+v.gap:
		return fillerByte(off)
	default:
		return v.suffix[off-uint64(len(v.prefix))-v.gap]
	}
}

func (v *virtualFile) slice(off, n uint64) []byte {
	out := make([]byte, n)
	for i := range out {
		out[i] = v.at(off + uint64(i))
	}
	return out
}

// hugeServeLimit: a lazy decode that pulls more than this through Read is reading the media data through (the files
// are gigabytes long, everything the checks ask for is a few kilobytes); generous enough for any buffering scheme
const hugeServeLimit = 64 << 20

func (v *virtualFile) Read(p []byte) (int, error) {
	if len(p) > v.maxRead {
		v.maxRead = len(p)
	}
	if v.pos >= v.size() {
		return 0, io.EOF
	}
	n := len(p)
	if rem := v.size() - v.pos; int64(n) > rem {
		n = int(rem)
	}
	if v.served+int64(n) > hugeServeLimit {
		return 0, fmt.Errorf("virtual file: more than %d bytes read (the media data is being read through)", hugeServeLimit)
	}
	for i := 0; i < n; i++ {
		p[i] = v.at(uint64(v.pos) + uint64(i))
	}
	v.pos += int64(n)
	v.served += int64(n)
	return n, nil
}

func (v *virtualFile) Seek(off int64, whence int) (int64, error) {
	var np int64
	switch whence {
	case io.SeekStart:
		np = off
	case io.SeekCurrent:
		np = v.pos + off
	case io.SeekEnd:
		np = v.size() + off
	default:
		return 0, fmt.Errorf("virtual file: bad whence %d", whence)
	}
	if np < 0 {
		return 0, fmt.Errorf("virtual file: negative position %d", np)
	}
	v.pos = np
	return np, nil
}

type hugeMaterial struct {
	vf        *virtualFile
	small     []byte
	top       []topBox // of the virtual file (Start/Size as int64 do not fit topBox: kept separately)
	vStart    []uint64
	vSize     []uint64
	mdatIdx   int
	hdr       uint64 // mdat header size
	payStart  uint64
	paySize   uint64
	gapPos    uint64     // absolute position of the first filler byte
	sampleOff [][]uint64 // per track, per sample: absolute virtual offset
}

func materialiseHuge(c *hugeCase) (*hugeMaterial, *harness.Fail) {
	lay := c.Layout
	file, truth, err := mp4build.BuildProgressive(c.Tracks, lay)
	if err != nil {
		return nil, harness.Failf("harness|c08|build", "%v", err)
	}
	if lay.MdatFirst {
		return nil, harness.Failf("harness|c08|bad-case", "huge cases need moov in front of mdat")
	}
	for _, tl := range lay.Tracks {
		if !tl.Co64 {
			return nil, harness.Failf("harness|c08|bad-case", "huge cases need co64")
		}
	}
	top, err := walkTop(file)
	if err != nil {
		return nil, harness.Failf("harness|c08|walk", "%v", err)
	}
	m := &hugeMaterial{small: file, mdatIdx: -1}
	for i, b := range top {
		if b.Type == "mdat" && uint64(b.Start) == truth.MdatStart {
			m.mdatIdx = i
		}
	}
	if m.mdatIdx < 0 {
		return nil, harness.Failf("harness|c08|writer-truth-differs-from-file", "mdat not found")
	}
	md := top[m.mdatIdx]
	m.hdr = uint64(md.HdrSize)
	// where the filler goes
	gp := truth.MdatPayloadStart + truth.MdatPayloadSize
	if c.GapAtChunk >= 0 && c.GapAtChunk < len(lay.ChunkOrder) {
		co := lay.ChunkOrder[c.GapAtChunk]
		if truth.Tracks[co[0]].ChunkSize[co[1]] != 0 { // a chunk without bytes may be placed outside the mdat
			gp = truth.Tracks[co[0]].ChunkOffset[co[1]]
		}
	}
	if gp < truth.MdatPayloadStart || gp > truth.MdatPayloadStart+truth.MdatPayloadSize {
		return nil, harness.Failf("harness|c08|bad-case", "insertion point %d outside the payload", gp)
	}
	newPayload := truth.MdatPayloadSize + c.Gap
	patched := append([]byte{}, file...)
	if m.hdr == 8 {
		if newPayload+8 > 0xffffffff {
			return nil, harness.Failf("harness|c08|bad-case", "payload %d does not fit a 32-bit size field", newPayload)
		}
		binary.BigEndian.PutUint32(patched[md.Start:], uint32(newPayload+8))
	} else {
		binary.BigEndian.PutUint64(patched[md.Start+8:], newPayload+16)
	}
	// chunk offsets at or behind the insertion point move by Gap (co64 boxes inside moov, which lies in front)
	// absolute positions of the co64 boxes (positional walk of the size fields)
	pos := findAbs(file, []string{"moov", "trak", "mdia", "minf", "stbl", "co64"})
	if len(pos) != len(c.Tracks) {
		return nil, harness.Failf("harness|c08|bad-case", "%d co64 positions for %d tracks", len(pos), len(c.Tracks))
	}
	for _, p := range pos {
		n := int(binary.BigEndian.Uint32(patched[p+12:]))
		for i := 0; i < n; i++ {
			o := binary.BigEndian.Uint64(patched[p+16+8*i:])
			if o >= gp {
				binary.BigEndian.PutUint64(patched[p+16+8*i:], o+c.Gap)
			}
		}
	}
	m.vf = &virtualFile{prefix: patched[:gp], suffix: patched[gp:], gap: c.Gap}
	m.gapPos = gp
	m.payStart, m.paySize = truth.MdatPayloadStart, newPayload
	for i, b := range top {
		st, sz := uint64(b.Start), uint64(b.Size)
		if i == m.mdatIdx {
			sz += c.Gap
		} else if i > m.mdatIdx {
			st += c.Gap
		}
		m.vStart, m.vSize = append(m.vStart, st), append(m.vSize, sz)
	}
	m.top = top
	for ti, tt := range truth.Tracks {
		var offs []uint64
		for si, o := range tt.SampleOffset {
			// a sample lies behind the insertion point iff its chunk does (the filler is put between chunks)
			if tt.ChunkOffset[tt.SampleChunk[si]-1] >= gp && tt.ChunkSize[tt.SampleChunk[si]-1] != 0 {
				o += c.Gap
			}
			offs = append(offs, o)
			d := c.Tracks[ti].Samples[si].Data
			if got := m.vf.slice(o, uint64(len(d))); !bytes.Equal(got, d) {
				return nil, harness.Failf("harness|c08|virtual-file-differs-from-model", "track %d sample %d at %d", ti, si+1, o)
			}
		}
		m.sampleOff = append(m.sampleOff, offs)
	}
	return m, nil
}

// findAbs returns the absolute positions of all boxes reached by the path (containers walked by size fields).
func findAbs(data []byte, path []string) []int {
	var out []int
	var rec func(lo, hi int, depth int)
	rec = func(lo, hi int, depth int) {
		for p := lo; p+8 <= hi; {
			size := int(binary.BigEndian.Uint32(data[p:]))
			hdr := 8
			if size == 1 && p+16 <= hi {
				size = int(binary.BigEndian.Uint64(data[p+8:]))
				hdr = 16
			}
			if size < hdr || p+size > hi {
				return
			}
			if string(data[p+4:p+8]) == path[depth] {
				if depth == len(path)-1 {
					out = append(out, p)
				} else {
					rec(p+hdr, p+size, depth+1)
				}
			}
			p += size
		}
	}
	rec(0, len(data), 0)
	return out
}

func checkHuge(c hugeCase) *harness.Fail {
	st := &stats{}
	return evalHuge(&c, st)
}

func evalHuge(c *hugeCase, st *stats) *harness.Fail {
	m, fail := materialiseHuge(c)
	if fail != nil {
		return fail
	}
	vf := m.vf
	fL, err := mp4.DecodeFile(vf, mp4.WithDecodeMode(mp4.DecModeLazyMdat))
	if err != nil {
		return harness.Failf("C08|DecodeFile|lazy: error on a well-formed file with a large mdat", "file of %d bytes, mdat payload %d (header %d): %v", vf.size(), m.paySize, m.hdr, err)
	}
	fN, err := mp4.DecodeFile(bytes.NewReader(m.small))
	if err != nil {
		return harness.Failf("C08|DecodeFile|error on harness-written file (both modes)", "%v", err)
	}
	if len(fL.Children) != len(m.top) || len(fN.Children) != len(m.top) {
		return harness.Failf("C08|DecodeFile|number of top-level boxes differs", "lazy %d, in-memory (small twin) %d, file %d", len(fL.Children), len(fN.Children), len(m.top))
	}
	var mdL *mp4.MdatBox
	for i, tb := range m.top {
		bl := fL.Children[i]
		if bl.Type() != tb.Type {
			return harness.Failf("C08|DecodeFile|top-level box type differs", "box %d: lazy %q, file %q", i, bl.Type(), tb.Type)
		}
		if i == m.mdatIdx {
			mdL, _ = bl.(*mp4.MdatBox)
			continue
		}
		// boxes other than the inflated mdat: same size as their in-memory twin
		if bl.Size() != fN.Children[i].Size() {
			return harness.Failf("C08|Box.Size|lazy: size differs from the in-memory size", "box %d %q: %d / %d", i, tb.Type, bl.Size(), fN.Children[i].Size())
		}
		if x, ok := bl.(*mp4.MdatBox); ok && x.StartPos != m.vStart[i] {
			return harness.Failf("C08|DecodeFile|box position differs from the file", "box %d mdat: StartPos %d, file %d", i, x.StartPos, m.vStart[i])
		}
		if x, ok := bl.(*mp4.MoovBox); ok && x.StartPos != m.vStart[i] {
			return harness.Failf("C08|DecodeFile|box position differs from the file", "box %d moov: StartPos %d, file %d", i, x.StartPos, m.vStart[i])
		}
	}
	if mdL == nil {
		return harness.Failf("C08|DecodeFile|top-level box type differs", "box %d is no *MdatBox", m.mdatIdx)
	}
	if m.paySize == 0 {
		return nil // an empty media data box (all samples empty, nothing inserted): nothing to read lazily
	}
	if fL.Mdat != mdL {
		return harness.Failf("C08|DecodeFile|lazy: File.Mdat is not the media data box of the file", "File.Mdat %p, box %d %p", fL.Mdat, m.mdatIdx, mdL)
	}
	if !mdL.IsLazy() {
		return harness.Failf("C08|DecodeFile|lazy: mdat not lazy", "payload %d", m.paySize)
	}
	desc := func() string {
		return fmt.Sprintf("mdat at %d, header %d, payload %d bytes (%d filler bytes inserted at %d), file %d bytes", m.vStart[m.mdatIdx], m.hdr, m.paySize, c.Gap, m.gapPos, vf.size())
	}
	hdrWant := vf.slice(m.vStart[m.mdatIdx], m.hdr)
	touch := func(kind int) *harness.Fail {
		switch kind {
		case 1:
			if s := mdL.Size(); s != m.vSize[m.mdatIdx] {
				return harness.Failf("C08|Box.Size|lazy: size differs from the size in the file", "%s: Size() = %d, file %d", desc(), s, m.vSize[m.mdatIdx])
			}
		case 2:
			var w bytes.Buffer
			if err := mdL.Encode(&w); err != nil {
				return harness.Failf("C08|MdatBox.Encode|lazy: error", "%s: %v", desc(), err)
			}
			if !bytes.Equal(w.Bytes(), hdrWant) {
				return harness.Failf("C08|MdatBox.Encode|lazy: written bytes differ from the header in the file", "%s: wrote %x, file has %x", desc(), w.Bytes(), hdrWant)
			}
		case 3:
			var w bytes.Buffer
			if err := fL.Info(&w, "all:1", "", "  "); err != nil {
				return harness.Failf("C08|File.Info|lazy: error", "%s: %v", desc(), err)
			}
		case 4:
			var total uint64
			for _, s := range m.vSize {
				total += s
			}
			if got := fL.Size(); got != total {
				// non-mdat boxes may be re-sized by the decoder in both modes alike; take their in-memory sizes
				var alt uint64
				for i := range m.top {
					if i == m.mdatIdx {
						alt += m.vSize[i]
					} else {
						alt += fN.Children[i].Size()
					}
				}
				if got != alt {
					return harness.Failf("C08|File.Size|lazy: differs from the file length", "%s: File.Size() = %d, file %d", desc(), got, total)
				}
			}
		}
		return nil
	}
	if fail := touch(c.PreTouch); fail != nil {
		return fail
	}
	if mdL.StartPos != m.vStart[m.mdatIdx] || mdL.PayloadAbsoluteOffset() != m.payStart || mdL.GetLazyDataSize() != m.paySize || mdL.HeaderSize() != m.hdr {
		return harness.Failf("C08|DecodeFile|lazy: mdat geometry differs from the file", "%s: StartPos %d, payload offset %d, lazy data size %d, header size %d", desc(), mdL.StartPos, mdL.PayloadAbsoluteOffset(), mdL.GetLazyDataSize(), mdL.HeaderSize())
	}

	// ---- byte ranges
	payEnd := m.payStart + m.paySize
	type rq struct {
		start uint64
		size  uint64
	}
	var qs []rq
	add := func(start, size uint64) {
		if size >= 1 && size <= 4096 {
			qs = append(qs, rq{start, size})
		}
	}
	for _, n := range []uint64{1, 2, 7, 8, 9, 16, 17, 64} {
		add(m.payStart, n)        // first payload bytes
		add(payEnd-min64(n, m.paySize), min64(n, m.paySize)) // ... and the last ones
		if c.Gap > 0 {
			if m.gapPos >= m.payStart+n {
				add(m.gapPos-n, 2*n) // across the start of the filler
			}
			if m.gapPos+c.Gap+n <= payEnd && c.Gap >= n {
				add(m.gapPos+c.Gap-n, 2*n) // across its end
			}
		}
		for _, b := range []uint64{1 << 31, 1 << 32, 1<<32 + 8, 1 << 33} {
			if b >= m.payStart+n && b+n <= payEnd {
				add(b-n, 2*n)
				add(b, n)
			}
		}
	}
	if c.WorkBuf > 0 && m.paySize > uint64(c.WorkBuf) {
		add(m.payStart+m.paySize/2, uint64(c.WorkBuf))
		add(m.payStart+uint64(c.WorkBuf)%m.paySize, 33)
	}
	var out bytes.Buffer
	for qi, q := range qs {
		if q.start < m.payStart || q.start+q.size > payEnd {
			continue
		}
		want := vf.slice(q.start, q.size)
		st.queries += 2
		got, err := mdL.ReadData(int64(q.start), int64(q.size), vf)
		toLast := q.start+q.size == payEnd
		rel := "error for a range inside the payload"
		if toLast {
			rel = "error for a range that ends at the last payload byte"
		}
		d := func() string { return fmt.Sprintf("%s: start=%d size=%d (payload offset %d)", desc(), q.start, q.size, q.start-m.payStart) }
		if err != nil {
			return harness.Failf("C08|MdatBox.ReadData|lazy: "+rel, "%s: %v", d(), err)
		}
		if !bytes.Equal(got, want) {
			return harness.Failf("C08|MdatBox.ReadData|lazy: bytes differ from the file", "%s: got %s, file has %s", d(), harness.HexTrunc(got, 32), harness.HexTrunc(want, 32))
		}
		out.Reset()
		n, err := mdL.CopyData(int64(q.start), int64(q.size), vf, &out)
		if err != nil {
			return harness.Failf("C08|MdatBox.CopyData|lazy: "+rel, "%s: %v", d(), err)
		}
		if !bytes.Equal(out.Bytes(), want) || n != int64(len(want)) {
			return harness.Failf("C08|MdatBox.CopyData|lazy: bytes differ from the file", "%s: got %d bytes %s, file has %s", d(), n, harness.HexTrunc(out.Bytes(), 32), harness.HexTrunc(want, 32))
		}
		if qi == len(qs)/2 && c.PreTouch != 0 {
			// the same observers once more in the middle of the reads: they must not disturb the box
			if fail := touch(1 + (c.PreTouch % 4)); fail != nil {
				return fail
			}
		}
	}
	// ranges that leave the payload must be refused (header bytes in front, the box behind, beyond the file)
	for _, q := range []rq{{m.payStart - 1, 2}, {m.payStart - m.hdr, m.hdr}, {payEnd - 1, 2}, {payEnd, 1}, {uint64(vf.size()) - 1, 2}} {
		st.queries++
		if got, err := mdL.ReadData(int64(q.start), int64(q.size), vf); err == nil {
			return harness.Failf("C08|MdatBox.ReadData|lazy: no error for a range outside the payload", "%s: start=%d size=%d returned %d bytes", desc(), q.start, q.size, len(got))
		}
	}

	// ---- samples
	bufs := workBufs(64, c.WorkBuf)
	for ti, tr := range c.Tracks {
		n := len(tr.Samples)
		if n == 0 {
			continue
		}
		trL := fL.Moov.Traks[ti]
		ivs := [][2]uint32{{1, uint32(n)}, {1, 1}, {uint32(n), uint32(n)}}
		if n > 2 {
			ivs = append(ivs, [2]uint32{2, uint32(n) - 1}, [2]uint32{uint32(n)/2 + 1, uint32(n)})
		}
		for k, iv := range ivs {
			var want []byte
			for s := iv[0]; s <= iv[1]; s++ {
				want = append(want, tr.Samples[s-1].Data...)
			}
			ws := bufs[(k+ti+c.WorkBuf)%len(bufs)]
			out.Reset()
			st.queries++
			if err := fL.CopySampleData(&out, vf, trL, iv[0], iv[1], ws); err != nil {
				return harness.Failf("C08|File.CopySampleData|lazy: error for a valid interval", "%s: track %d samples %d..%d of %d (first at %d, last at %d), work buffer %d: %v", desc(), ti, iv[0], iv[1], n, m.sampleOff[ti][iv[0]-1], m.sampleOff[ti][iv[1]-1], len(ws), err)
			}
			if !bytes.Equal(out.Bytes(), want) {
				return harness.Failf("C08|File.CopySampleData|lazy: copied bytes differ from the samples", "%s: track %d samples %d..%d of %d (first at %d), work buffer %d: wrote %d bytes %s, the samples are %d bytes %s", desc(), ti, iv[0], iv[1], n, m.sampleOff[ti][iv[0]-1], len(ws), out.Len(), harness.HexTrunc(out.Bytes(), 32), len(want), harness.HexTrunc(want, 32))
			}
		}
		// the byte ranges of single samples as the track reports them (64-bit chunk offsets)
		for si := range tr.Samples {
			if len(tr.Samples[si].Data) == 0 {
				continue
			}
			rs, err := trL.GetRangesForSampleInterval(uint32(si+1), uint32(si+1))
			if err != nil {
				return harness.Failf("C08|TrakBox.GetRangesForSampleInterval|lazy: error", "%s: track %d sample %d: %v", desc(), ti, si+1, err)
			}
			var nz []mp4.DataRange
			for _, r := range rs {
				if r.Size > 0 {
					nz = append(nz, r)
				}
			}
			if len(nz) != 1 || nz[0].Offset != m.sampleOff[ti][si] || nz[0].Size != uint64(len(tr.Samples[si].Data)) {
				return harness.Failf("C08|TrakBox.GetRangesForSampleInterval|lazy: sample position differs from the file", "%s: track %d sample %d: ranges %+v, file has offset %d size %d", desc(), ti, si+1, rs, m.sampleOff[ti][si], len(tr.Samples[si].Data))
			}
		}
	}
	// ---- header + copied payload == original box (checked on the header and on both ends of the payload;
	// the payload itself is what ReadData/CopyData returned above)
	if fail := touch(2); fail != nil {
		return fail
	}
	if fail := touch(1); fail != nil {
		return fail
	}
	if mdL.PayloadAbsoluteOffset() != m.payStart || mdL.HeaderSize() != m.hdr {
		return harness.Failf("C08|DecodeFile|lazy: mdat geometry differs from the file", "%s: after Size/Encode: payload offset %d, header size %d", desc(), mdL.PayloadAbsoluteOffset(), mdL.HeaderSize())
	}
	if got, err := mdL.ReadData(int64(m.payStart), 1, vf); err != nil || got[0] != vf.at(m.payStart) {
		return harness.Failf("C08|MdatBox.ReadData|lazy: error for a range inside the payload", "%s: first payload byte after Size/Encode: %v", desc(), err)
	}
	return nil
}

func min64(a, b uint64) uint64 {
	if a < b {
		return a
	}
	return b
}

func genHuge(t *rapid.T) hugeCase {
	opt := mp4build.GenOpt{MaxTracks: 2, MaxSamples: 8, MaxSampleSize: 24, AllowZeroSize: true}
	tracks := mp4build.GenTracks(t, opt)
	lay := mp4build.GenProgLayout(t, tracks)
	mp4build.GenEmptyChunkAt(t, &lay)
	lay.MdatFirst = false
	for i := range lay.Tracks {
		lay.Tracks[i].Co64 = true
	}
	c := hugeCase{Tracks: tracks, Layout: lay}
	c.GapAtChunk = rapid.IntRange(0, len(lay.ChunkOrder)).Draw(t, "gapAtChunk")
	c.PreTouch = rapid.IntRange(0, 4).Draw(t, "preTouch")
	c.WorkBuf = rapid.IntRange(0, 200).Draw(t, "workBuf")
	// the payload of the small file, to aim at the boundaries
	_, truth, err := mp4build.BuildProgressive(tracks, lay)
	if err != nil {
		t.Fatalf("build: %v", err)
	}
	P := truth.MdatPayloadSize
	start := truth.MdatPayloadStart
	const max32 = uint64(0xffffffff)
	kind := rapid.IntRange(0, 7).Draw(t, "sizeKind")
	d := uint64(rapid.IntRange(0, 24).Draw(t, "delta"))
	var target uint64 // wanted payload size
	switch kind {
	case 0: // largest payloads of a 32-bit size field and just below
		target = max32 - 8 - d
	case 1: // first payloads that need the 64-bit form
		target = max32 - 8 + 1 + d
	case 2: // box size or end offset around 2^32
		target = (1 << 32) - start - 12 + d
	case 3: // around 2^31
		target = (1 << 31) - start - 12 + d
	case 4:
		target = (1 << 32) + uint64(rapid.Uint32().Draw(t, "beyond"))
	case 5:
		target = (1 << 33) + uint64(rapid.Uint32().Draw(t, "beyond"))
	case 6: // no inflation at all or a small one: the twin of the ordinary cases
		target = P + d
	default:
		target = uint64(rapid.Uint32().Draw(t, "any32"))
	}
	if target < P {
		target = P
	}
	if target+8 > max32 {
		c.Layout.MdatLarge = true
	} else if rapid.IntRange(0, 3).Draw(t, "largeHeaderAnyway") == 0 {
		c.Layout.MdatLarge = true
	} else {
		c.Layout.MdatLarge = false
	}
	c.Gap = target - P
	return c
}

func TestLazyHuge(t *testing.T) {
	harness.RunRapid(t, "lazyhuge", func(rt *rapid.T) {
		c := genHuge(rt)
		raw, _ := json.Marshal(c)
		st := &stats{}
		f := harness.Guarded(func() *harness.Fail { return evalHuge(&c, st) })
		P := uint64(0)
		for _, tr := range c.Tracks {
			for _, s := range tr.Samples {
				P += uint64(len(s.Data))
			}
		}
		classes := []string{"kind-huge"}
		total := P + c.Gap
		switch {
		case total+8 > 0xffffffff:
			classes = append(classes, "huge:payload-needs-64-bit-size")
		case total+16 > 0xffffffff:
			classes = append(classes, "huge:payload-in-the-last-8-bytes-of-the-32-bit-form")
		case total > 1<<31:
			classes = append(classes, "huge:payload-above-2^31")
		default:
			classes = append(classes, "huge:payload-below-2^31")
		}
		if c.Layout.MdatLarge {
			classes = append(classes, "huge:64-bit-header")
		} else {
			classes = append(classes, "huge:32-bit-header")
		}
		classes = append(classes, fmt.Sprintf("huge:pretouch-%d", c.PreTouch))
		harness.Rec.Case(c.Gap > 0, raw, classes...)
		harness.Rec.ClassN("queries", st.queries)
		if harness.Rec.WantSample() {
			harness.Rec.Sample(map[string]interface{}{"kind": "lazyhuge", "gap": c.Gap, "gap_at_chunk": c.GapAtChunk, "mdat_large": c.Layout.MdatLarge, "pre_touch": c.PreTouch, "tracks": len(c.Tracks)})
		}
		harness.Report(rt, "lazyhuge", c, f)
	})
}
