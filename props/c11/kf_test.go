package c11

// Reproducers of the known findings of the segmenting tools: minimal hand-made cases, written as replay
// files by
//   VERIF_C11_WRITE_KF=1 go test -tags verif ./props/c11 -run TestWriteKnownFindingRepros
// (each case must fail on the unchanged tools; "noAvoid" makes the replay show the failure).

import (
	"encoding/json"
	"os"
	"sort"
	"strings"
	"testing"

	"verif/internal/fragbuild"
	"verif/internal/harness"
	"verif/internal/mp4build"
)

func kfProgTrack(id uint32, handler string, ts uint32, durs []uint32, syncs []int) mp4build.Track {
	v, a, err := mp4build.DefaultStsd()
	if err != nil {
		panic(err)
	}
	tr := mp4build.Track{ID: id, Timescale: ts, Handler: handler, StsdRaw: a}
	if handler == "vide" {
		tr.StsdRaw, tr.Width, tr.Height = v, 16, 16
	}
	isSync := map[int]bool{}
	for _, s := range syncs {
		isSync[s] = true
	}
	for i, d := range durs {
		tr.Samples = append(tr.Samples, mp4build.Sample{Data: []byte{byte(id), byte(i + 1), 0xaa}, Dur: d, Sync: syncs == nil || isSync[i+1]})
	}
	return tr
}

func kfSeg(mode string, durMS uint64, tracks []mp4build.Track, layouts []mp4build.TrackLayout) segCase {
	lay := mp4build.ProgLayout{Tracks: layouts, MovieTimescale: 1000}
	lay.ChunkOrder = mp4build.SequentialChunkOrder(lay.Tracks)
	return segCase{Tracks: tracks, Layout: lay, Mode: mode, SegDurMS: durMS, NoAvoid: true}
}

func kfFragTrack(start uint64, durs []uint32) fragbuild.Track {
	v, _ := fragStsd()
	tr := fragbuild.Track{ID: 1, Timescale: 1000, Handler: "vide", StsdRaw: v, Width: 16, Height: 16,
		Trex: fragbuild.TrexDefaults{DescIdx: 1}, StartTime: start}
	for i, d := range durs {
		tr.Samples = append(tr.Samples, fragbuild.Sample{Data: []byte{1, byte(i + 1), 0xbb}, Dur: d, Flags: fragbuild.FlagsSync})
	}
	return tr
}

func kfFragLayout(n int) fragbuild.FileLayout {
	return fragbuild.FileLayout{SeqStart: 1, Segments: []fragbuild.Segment{{Styp: true, Frags: []fragbuild.Frag{{Runs: []fragbuild.Run{{Track: 0, N: n}}}}}}}
}

type kfEntry struct {
	kind string
	c    interface{}
	run  func() *harness.Fail
}

func knownFindingCases() map[string]kfEntry {
	out := map[string]kfEntry{}
	// 4 video samples of 10 ms in one chunk, sync samples 1 and 3, -d 20: segments {1,2} and {3}; sample 4 is never written
	for _, m := range []struct{ suffix, mode string }{{"", "single"}, {"-mux", "mux"}, {"-lazy", "lazy"}} {
		c := kfSeg(m.mode, 20,
			[]mp4build.Track{kfProgTrack(1, "vide", 1000, []uint32{10, 10, 10, 10}, []int{1, 3})},
			[]mp4build.TrackLayout{{ChunkSizes: []int{4}, CttsVersion: -1, Stss: true}})
		out["segmenter-last-sample-dropped"+m.suffix] = kfEntry{"segmenter", c, func() *harness.Fail { return checkSegmenter(c) }}
	}
	// video: 4 samples of 10 ms, all sync; audio: 2 samples of 16 ms: the last segment start (30 ms) lies
	// inside the final audio sample (16..32 ms): audio interval {3, 1}, capacity 1-3+1 wraps
	oom := kfSeg("single", 1,
		[]mp4build.Track{kfProgTrack(1, "vide", 1000, []uint32{10, 10, 10, 10}, []int{1, 2, 3, 4}), kfProgTrack(2, "soun", 1000, []uint32{16, 16}, nil)},
		[]mp4build.TrackLayout{{ChunkSizes: []int{4}, CttsVersion: -1, Stss: true}, {ChunkSizes: []int{2}, CttsVersion: -1}})
	out["segmenter-last-sample-dropped-capacity-wraps"] = kfEntry{"segmenter", oom, func() *harness.Fail { return checkSegmenter(oom) }}
	nostss := kfSeg("single", 20,
		[]mp4build.Track{kfProgTrack(1, "vide", 1000, []uint32{10, 10, 10, 10}, nil)},
		[]mp4build.TrackLayout{{ChunkSizes: []int{4}, CttsVersion: -1}})
	out["segmenter-video-without-stss"] = kfEntry{"segmenter", nostss, func() *harness.Fail { return checkSegmenter(nostss) }}
	// a track that starts at decode time 1000: the first sample already has presentation time >= 100
	rs := resegCase{Track: kfFragTrack(1000, []uint32{10, 10}), Layout: kfFragLayout(2), ChunkDur: 100, NoAvoid: true}
	out["resegmenter-empty-first-segment"] = kfEntry{"resegmenter", rs, func() *harness.Fail { return checkResegmenter(rs) }}
	// durations 10 10 0 10 10, target 20: {1,2} is closed at 20, sample 3 (duration 0) opens a fragment and
	// leaves the accumulator at 0, so sample 4 opens the next one
	fg := fragmCase{Track: kfFragTrack(0, []uint32{10, 10, 0, 10, 10}), Layout: kfFragLayout(5), Duration: 20, NoAvoid: true}
	out["fragmentify-zero-duration-sample-closes-fragment"] = kfEntry{"fragmentify", fg, func() *harness.Fail { return checkFragmentify(fg) }}
	// ---- pending triage (the cases the search found are under replay/C11/pending/)
	// durations 2^31 x 4, target 0xc0000000: {1,2} reaches 2^32 >= target, but the 32-bit accumulator reads 0
	fw := fragmCase{Track: kfFragTrack(0, []uint32{0x80000000, 0x80000000, 0x80000000, 0x80000000}), Layout: kfFragLayout(4), Duration: 0xc0000000, NoAvoid: true}
	out["fragmentify-accumulated-duration-wraps"] = kfEntry{"fragmentify", fw, func() *harness.Fail { return checkFragmentify(fw) }}
	// 90 kHz, 4 sync samples of 3000 ticks, -d 47721859 (13 h): step 4294967310 ticks, kept as 14: four segments
	ws := kfSeg("single", 47721859,
		[]mp4build.Track{kfProgTrack(1, "vide", 90000, []uint32{3000, 3000, 3000, 3000}, []int{1, 2, 3, 4})},
		[]mp4build.TrackLayout{{ChunkSizes: []int{4}, CttsVersion: -1, Stss: true}})
	out["segmenter-step-truncated-to-32-bits"] = kfEntry{"segmenter", ws, func() *harness.Fail { return checkSegmenter(ws) }}
	return out
}

func TestWriteKnownFindingRepros(t *testing.T) {
	if os.Getenv("VERIF_C11_WRITE_KF") == "" {
		t.Skip("VERIF_C11_WRITE_KF not set")
	}
	needBin(t, "segmenter", "resegmenter")
	defer cleanupTmp()
	dir := harness.E.VerifDir + "/replay/C11"
	if err := os.MkdirAll(dir, 0o755); err != nil {
		t.Fatal(err)
	}
	cases := knownFindingCases()
	names := make([]string, 0, len(cases))
	for name := range cases {
		names = append(names, name)
	}
	sort.Strings(names)
	for _, name := range names {
		e := cases[name]
		f := harness.Guarded(e.run)
		if f == nil {
			t.Errorf("%s: the case does not fail (defect repaired?)", name)
			continue
		}
		raw, _ := json.Marshal(e.c)
		msg := f.Msg
		if i := strings.Index(msg, "\n"); i > 0 {
			msg = msg[:i]
		}
		b, _ := json.MarshalIndent(harness.ReplayFile{Property: "C11", Kind: e.kind, Key: f.Key, Msg: msg, Case: raw}, "", " ")
		if err := os.WriteFile(dir+"/kf-"+name+".json", append(b, '\n'), 0o644); err != nil {
			t.Fatal(err)
		}
		t.Logf("%s: %s -- %s", name, f.Key, msg)
	}
}
