// C11 — segmenting / resegmenting / fragmentifying / combining keep, per track, the complete ordered
// sample sequence, and every produced segment starts with a sync sample of the reference track.
//
// Legs (one replay kind each):
//
//	segmenter    examples/segmenter BINARY (default, -m, -lazy, -m -lazy) on progressive files written by internal/mp4build
//	resegmenter  examples/resegmenter BINARY on single-track fragmented files written by internal/fragbuild
//	fragmentify  mp4.MediaSegment.Fragmentify in-process on the same kind of files
//	combinesegs  examples/combine-segs BINARY on two single-track init+media segment pairs with explicit per-sample values
//
// All outputs are read with the harness' own reader (fragbuild.Read / ReadWith), never with the library.
//
// Exit status: the inputs are valid by construction, so a tool that exits with an error has not done its
// job: "error on valid input" (resegmenter, combine-segs: always; segmenter: unless the message is the one
// about a track that ends before a segment start, AND the model shows such a track). A time limit that is
// exceeded twice (in the batch and alone, toolrun_test.go) is "time limit exceeded".
//
// # Where the segmenter puts the segment starts
//
// examples/segmenter/main.go, option -d: "Required: segment duration (milliseconds). The segments will start
// at syncSamples with decoded time >= n*segDur". examples/segmenter/segment.go getSegmentStartsFromVideo:
// step = segDurMS * timescale / 1000 ticks of the video track (integer division); the sync samples of the
// video track are visited in order, a sample whose PRESENTATION time (decode time + composition offset) is
// >= nextSegmentStart becomes a segment start and nextSegmentStart += step (first value 0), i.e. segment
// k+1 starts at the first sync sample, after the start of segment k, with time >= k*step. The usage text says
// decode time, the source uses presentation time: the oracle computes both readings from the model in
// 64-bit arithmetic and fails when the output follows neither of them
// ("segment boundary not at the documented sync sample").
package c11

import (
	"bytes"
	"encoding/json"
	"fmt"
	"os"
	"path/filepath"
	"regexp"
	"sort"
	"strconv"
	"strings"
	"testing"

	"github.com/Eyevinn/mp4ff/mp4"
	"pgregory.net/rapid"

	"verif/internal/fragbuild"
	"verif/internal/harness"
	"verif/internal/mp4build"
)

// strictBoundaries: also judge WHERE segments / fragments are cut against the tools' documented rules (not clauses
// of C11; off in every registered command).
var strictBoundaries = os.Getenv("VERIF_C11_STRICT_BOUNDARIES") == "1"

func TestMain(m *testing.M) { harness.Main(m) }

func init() {
	harness.RegisterReplay("segmenter", harness.Replayer(checkSegmenter))
	harness.RegisterReplay("resegmenter", harness.Replayer(checkResegmenter))
	harness.RegisterReplay("fragmentify", harness.Replayer(checkFragmentify))
	harness.RegisterReplay("combinesegs", harness.Replayer(checkCombine))
	// development aid: VERIF_C11_NOAVOID=all or a comma-separated list of switch names
	if v := os.Getenv("VERIF_C11_NOAVOID"); v == "all" {
		avoidKnown = map[string]bool{}
	} else if v != "" {
		for _, name := range strings.Split(v, ",") {
			delete(avoidKnown, name)
		}
	}
}

func TestReplay(t *testing.T) { harness.ReplayPath(t); cleanupTmp() }

// avoidKnown lists the confirmed defects that are stepped around (and counted) so that the search
// continues behind them. Each name has a reproducer /verif/replay/C11/kf-<name>.json whose case
// carries "noAvoid": true, so that replaying it shows the failure.
var avoidKnown = map[string]bool{
	// examples/segmenter getSegmentIntervals: "endSampleNr = totNrSamples - 1" for the last segment: the
	// final sample of every track is never written (all three modes). Oracle side: an output track that
	// is exactly the input without its final sample is accepted (everything else is still compared).
	// Same root cause: when the last segment start falls strictly inside the final sample of another
	// track, that track's interval becomes {N+1, N-1} and the slice capacity end-start+1 wraps to
	// 4294967295 (out of memory); accepted only when the model shows that situation.
	"segmenter-last-sample-dropped": false, // repaired in /repo (fix: e324434)
	// examples/resegmenter Resegment: the loop that looks for the next segment start also tests the very
	// first sample; when its presentation time is >= the chunk duration (any stream that does not start
	// near time 0) segment 1 is closed before anything was written to it: the output starts with an
	// empty styp/moof/mdat. Oracle side: an empty FIRST segment is accepted.
	"resegmenter-empty-first-segment": false, // repaired in /repo (fix: 4868175)
	// MediaSegment.Fragmentify uses "accumulated duration == 0" as the sign that a new output fragment
	// has to be started: a zero-duration sample that opens a fragment leaves the accumulator at 0, so the
	// next sample opens another fragment although the target duration was not reached (no sample is
	// lost). Oracle side: the "closed before reaching the target" check skips fragments that consist of
	// one zero-duration sample.
	"fragmentify-zero-duration-sample-closes-fragment": false, // repaired in /repo (fix: f894956)
	// examples/segmenter getSegmentStartsFromVideo dereferences the video track's stss without a nil
	// check: a video track without stss (= every sample is a sync sample) is a nil pointer panic.
	// Generator side: the video track gets an stss.
	"segmenter-video-without-stss": false, // repaired in /repo (fix: 212c8b8)
	// MediaSegment.Fragmentify accumulates the sample durations of the current output fragment in a uint32
	// (cumDur): when the sum passes 2^32 it wraps, the comparison with the target sees a small value and the
	// fragment is not closed (4 samples of duration 0x80000000, target 0xc0000000: one fragment of 4 samples
	// instead of 2+2). Oracle side: "continues after reaching the target" is not judged for an output
	// fragment that had accumulated >= 2^32 before its last sample (no target value reaches that).
	// Reproducer: replay/C11/pending/new-fragmentify-accumulated-duration-wraps.json
	"fragmentify-accumulated-duration-wraps": false, // repaired in /repo (fix: 6723fbb)
	// examples/segmenter getSegmentStartsFromVideo keeps the step (segDurMS * timescale / 1000 ticks) and the
	// next segment start in uint32 variables: -d 47721859 on a 90 kHz track is a step of 4294967310 ticks,
	// stored as 14: a segment at every sync sample instead of a single one (and, with a second track that is
	// over by then, "no matching sample found"). Oracle side: with a step beyond 32 bits neither the segment
	// starts nor an error exit are judged (sample conservation and sync starts still are).
	// Reproducers: replay/C11/pending/new-segmenter-step-truncated-to-32-bits*.json
	"segmenter-step-truncated-to-32-bits": false, // repaired in /repo (fix: 03e8124)
}

func avoiding(noAvoid bool, name string) bool { return !noAvoid && avoidKnown[name] }

type evalInfo struct {
	classes    []string
	excluded   []string
	nontrivial bool
}

func (i *evalInfo) class(s ...string) { i.classes = append(i.classes, s...) }
func (i *evalInfo) exclude(s string)  { i.excluded = append(i.excluded, s) }
func (i *evalInfo) add(cond bool, yes, no string) {
	if cond && yes != "" {
		i.classes = append(i.classes, yes)
	}
	if !cond && no != "" {
		i.classes = append(i.classes, no)
	}
}

// ---------------------------------------------------------------------------------------------
// the model side: per track the ordered list of samples with everything the property names

type mSample struct {
	Data  []byte
	Dur   uint32
	Flags uint32
	Cto   int32
	Time  uint64 // decode time
}

// expFlags is the sample-flags word of ISO/IEC 14496-12 8.8.3.1 that corresponds to the stss and sdtp
// information of a progressive track: sample_is_non_sync_sample from stss; the four 2-bit dependency
// fields from sdtp if present; without sdtp a sync sample listed in stss is marked sample_depends_on=2
// (the documented translation: segmenter.TranslateSampleFlagsForFragment, same rule as props/c09).
func expFlags(hasStss, sync, hasSdtp bool, sdtp byte) uint32 {
	var leading, dependsOn, dependedOn, redundancy, nonSync uint32
	if hasStss {
		if sync {
			dependsOn = 2
		} else {
			nonSync = 1
		}
	}
	if hasSdtp {
		leading = uint32(sdtp>>6) & 3
		dependsOn = uint32(sdtp>>4) & 3
		dependedOn = uint32(sdtp>>2) & 3
		redundancy = uint32(sdtp) & 3
	}
	return leading<<26 | dependsOn<<24 | dependedOn<<22 | redundancy<<20 | nonSync<<16
}

func progModel(tr mp4build.Track, tl mp4build.TrackLayout) []mSample {
	out := make([]mSample, len(tr.Samples))
	var t uint64
	for i, s := range tr.Samples {
		out[i] = mSample{Data: s.Data, Dur: s.Dur, Cto: s.Cto, Time: t,
			Flags: expFlags(tl.Stss, !tl.Stss || s.Sync, tl.Sdtp, s.Sdtp)}
		t += uint64(s.Dur)
	}
	return out
}

func fragModel(tr *fragbuild.Track) []mSample {
	out := make([]mSample, len(tr.Samples))
	t := tr.StartTime
	for i, s := range tr.Samples {
		out[i] = mSample{Data: s.Data, Dur: s.Dur, Cto: s.Cto, Time: t, Flags: s.Flags}
		t += uint64(s.Dur)
	}
	return out
}

func flagsSync(f uint32) bool { return f&0x00010000 == 0 }

// compareSamples compares the concatenated output samples of a track with the model. lastDropped is
// true when the output is exactly the model without its final sample and tolerateLastDropped is set
// (known finding of the segmenter); otherwise that situation is reported with its own key.
func compareSamples(area, what string, want []mSample, got []fragbuild.PSample, tolerateLastDropped bool) (fail *harness.Fail, lastDropped bool) {
	n := len(got)
	if n > len(want) {
		n = len(want)
	}
	for i := 0; i < n; i++ {
		w, g := want[i], got[i]
		switch {
		case !bytes.Equal(g.Data, w.Data):
			return harness.Failf("C11|"+area+"|sample bytes differ", "%s sample %d: %s (%d bytes), input %s (%d bytes)", what, i+1, harness.HexTrunc(g.Data, 24), len(g.Data), harness.HexTrunc(w.Data, 24), len(w.Data)), false
		case g.Dur != w.Dur:
			return harness.Failf("C11|"+area+"|sample duration differs", "%s sample %d: duration %d, input %d", what, i+1, g.Dur, w.Dur), false
		case g.Flags != w.Flags:
			return harness.Failf("C11|"+area+"|sample flags differ", "%s sample %d: flags %#08x, input %#08x", what, i+1, g.Flags, w.Flags), false
		case g.Cto != int64(w.Cto):
			return harness.Failf("C11|"+area+"|composition offset differs", "%s sample %d: composition time offset %d, input %d", what, i+1, g.Cto, w.Cto), false
		case g.DecodeTime != w.Time:
			return harness.Failf("C11|"+area+"|decode time differs", "%s sample %d: decode time %d, input %d", what, i+1, g.DecodeTime, w.Time), false
		}
	}
	switch {
	case len(got) == len(want):
		return nil, false
	case len(got) == len(want)-1:
		if tolerateLastDropped {
			return nil, true
		}
		return harness.Failf("C11|"+area+"|last sample dropped", "%s: output has %d samples, identical to the first %d of the %d input samples: the final sample is missing", what, len(got), len(got), len(want)), false
	case len(got) < len(want):
		return harness.Failf("C11|"+area+"|samples missing at the end", "%s: output has %d samples, input %d", what, len(got), len(want)), false
	}
	return harness.Failf("C11|"+area+"|more samples than the input", "%s: output has %d samples, input %d", what, len(got), len(want)), false
}

// ---------------------------------------------------------------------------------------------
// generic batch runner: K cases per rapid check, evaluated concurrently, judged in index order

func runBatch[C any](rt *rapid.T, kind string, n int, gen func(*rapid.T) (C, bool, []string), eval func(*C) (*harness.Fail, evalInfo)) {
	cases := make([]C, n)
	live := make([]bool, n)
	for i := range cases {
		c, ok, excluded := gen(rt)
		for _, name := range excluded {
			harness.Rec.Exclude(name)
		}
		cases[i], live[i] = c, ok
	}
	fails := make([]*harness.Fail, n)
	infos := make([]evalInfo, n)
	parallel(n, func(i int) {
		if !live[i] {
			return
		}
		fails[i] = harness.Guarded(func() *harness.Fail {
			f, info := eval(&cases[i])
			infos[i] = info
			return f
		})
	})
	for i := range cases {
		if !live[i] {
			continue
		}
		raw, _ := json.Marshal(cases[i])
		harness.Rec.Case(infos[i].nontrivial, raw, infos[i].classes...)
		for _, name := range infos[i].excluded {
			harness.Rec.Exclude(name)
		}
		if infos[i].nontrivial && harness.Rec.WantSample() {
			harness.Rec.Sample(map[string]interface{}{"kind": kind, "case": cases[i]})
		}
	}
	for i := range cases {
		if live[i] && fails[i] != nil {
			harness.Report(rt, kind, cases[i], fails[i])
		}
	}
}

func exitReason(stderr string) string {
	s := strings.TrimSpace(stderr)
	if i := strings.LastIndex(s, "error: "); i >= 0 {
		s = s[i+len("error: "):]
	}
	s = numRe.ReplaceAllString(s, "N")
	if i := strings.Index(s, "\n"); i >= 0 {
		s = s[:i]
	}
	if len(s) > 90 {
		s = s[:90]
	}
	return s
}

// ---------------------------------------------------------------------------------------------
// leg (a): segmenter

type segCase struct {
	Tracks   []mp4build.Track    `json:"tracks"`
	Layout   mp4build.ProgLayout `json:"layout"`
	Mode     string              `json:"mode"` // "single" | "mux" | "lazy" | "muxlazy" (-m -lazy)
	SegDurMS uint64              `json:"segDurMS"`
	NoAvoid  bool                `json:"noAvoid,omitempty"`
}

func segArea(mode string) string {
	switch mode {
	case "mux":
		return "segmenter -m"
	case "lazy":
		return "segmenter -lazy"
	case "muxlazy":
		return "segmenter -m -lazy"
	}
	return "segmenter"
}

// segStarts returns the (0-based) video samples at which the segments start by the rule quoted in the
// package comment, computed from the model in 64-bit arithmetic: byPres = presentation time (the source),
// otherwise decode time (the usage text).
func segStarts(c *segCase, byPres bool) []int {
	vi := videoIndex(c.Tracks)
	v, tl := c.Tracks[vi], c.Layout.Tracks[vi]
	step := c.SegDurMS * uint64(v.Timescale) / 1000
	var starts []int
	var next, dt uint64
	for i, s := range v.Samples {
		tm := int64(dt)
		if byPres {
			tm += int64(s.Cto)
		}
		if (!tl.Stss || s.Sync) && tm >= 0 && uint64(tm) >= next {
			starts = append(starts, i)
			next += step
		}
		dt += uint64(s.Dur)
	}
	return starts
}

func sameInts(a, b []int) bool {
	if len(a) != len(b) {
		return false
	}
	for i := range a {
		if a[i] != b[i] {
			return false
		}
	}
	return true
}

// trackEndsBeforeAStart: the decode time of one of the segment starts 2.. (converted to the timescale of
// another track, as the tool does) is not inside that track: there is no sample to start the segment with,
// the tool reports "no matching sample found" (a limitation it states by that message).
func trackEndsBeforeAStart(c *segCase, starts []int) bool {
	vi := videoIndex(c.Tracks)
	v := c.Tracks[vi]
	dts := make([]uint64, len(v.Samples))
	var dt uint64
	for i, s := range v.Samples {
		dts[i] = dt
		dt += uint64(s.Dur)
	}
	for ti, tr := range c.Tracks {
		if ti == vi {
			continue
		}
		var total uint64
		for _, s := range tr.Samples {
			total += uint64(s.Dur)
		}
		for k := 1; k < len(starts); k++ {
			if dts[starts[k]]*uint64(tr.Timescale)/uint64(v.Timescale) >= total {
				return true
			}
		}
	}
	return false
}

func checkSegmenter(c segCase) *harness.Fail {
	f, _ := evalSegmenter(&c)
	return f
}

func videoIndex(tracks []mp4build.Track) int {
	for i, t := range tracks {
		if t.Handler == "vide" {
			return i
		}
	}
	return -1
}

var segFileRe = regexp.MustCompile(`^out_(?:([av])1|media)_([0-9]+)\.m4s$`)

func evalSegmenter(c *segCase) (fail *harness.Fail, info evalInfo) {
	if f := missingBin("segmenter"); f != nil {
		return f, info
	}
	area := segArea(c.Mode)
	vi := videoIndex(c.Tracks)
	if vi < 0 || c.SegDurMS == 0 {
		return harness.Failf("harness|c11|bad-case", "no video track or segment duration 0"), info
	}
	file, _, err := mp4build.BuildProgressive(c.Tracks, c.Layout)
	if err != nil {
		return harness.Failf("harness|c11|build", "%v", err), info
	}
	info.class("segmenter-mode-"+c.Mode, fmt.Sprintf("segmenter-tracks-%d", len(c.Tracks)))
	info.add(vi != 0, "segmenter-audio-track-first", "")
	info.add(c.Layout.Tracks[vi].CttsVersion >= 0, "segmenter-video-ctts", "")
	info.add(c.Layout.Tracks[vi].Sdtp, "segmenter-video-sdtp", "")
	info.add(c.Layout.Tracks[vi].Co64, "segmenter-video-co64", "")
	info.add(c.Layout.MdatFirst, "segmenter-mdat-first", "")

	dir, err := caseDir()
	if err != nil {
		return harness.Failf("harness|c11|tmpdir", "%v", err), info
	}
	defer os.RemoveAll(dir)
	if err := os.WriteFile(filepath.Join(dir, "in.mp4"), file, 0o644); err != nil {
		return harness.Failf("harness|c11|tmpdir", "%v", err), info
	}
	args := []string{"-d", fmt.Sprint(c.SegDurMS)}
	switch c.Mode {
	case "single":
	case "mux":
		args = append(args, "-m")
	case "lazy":
		args = append(args, "-lazy")
	case "muxlazy":
		args = append(args, "-m", "-lazy")
	default:
		return harness.Failf("harness|c11|bad-case", "mode %q", c.Mode), info
	}
	mux := c.Mode == "mux" || c.Mode == "muxlazy"
	args = append(args, "in.mp4", "out")
	cmdline := "segmenter " + strings.Join(args[:len(args)-2], " ")
	startsPres, startsDec := segStarts(c, true), segStarts(c, false)
	wideStep := c.SegDurMS*uint64(c.Tracks[vi].Timescale)/1000 > 0xffffffff
	res := runTool(dir, binPath("segmenter"), args...)
	if res.StartErr != nil {
		return harness.Failf("harness|c11|cannot start tool", "%v", res.StartErr), info
	}
	info.add(res.SlowUnderLoad, "tool-slow-under-load", "")
	if res.TimedOut {
		return timeLimitFail(area, cmdline, res), info
	}
	if crashed, class := res.crashed(); crashed {
		info.class("segmenter-exit-crash")
		if strings.HasPrefix(class, "out of memory") && avoiding(c.NoAvoid, "segmenter-last-sample-dropped") && syncInsideFinalSample(c) {
			info.exclude("segmenter-last-sample-dropped")
			return nil, info
		}
		return harness.Failf("C11|"+area+"|panic ("+class+")", "segmenter %s: exit status %d\n%s", strings.Join(args, " "), res.Exit, headTail(res.Stderr, 700)), info
	}
	if res.Exit != 0 {
		reason := exitReason(res.Stderr)
		info.class("segmenter-exit-error", "segmenter-exit-error: "+reason)
		if strings.Contains(reason, "no matching sample found") && (trackEndsBeforeAStart(c, startsPres) || trackEndsBeforeAStart(c, startsDec)) {
			info.class("segmenter-exit-error-track-ends-before-a-segment-start")
			return nil, info // the one stated limitation: no claim
		}
		if wideStep && avoiding(c.NoAvoid, "segmenter-step-truncated-to-32-bits") {
			info.exclude("segmenter-step-truncated-to-32-bits")
			return nil, info
		}
		return harness.Failf("C11|"+area+"|error on valid input", "%s: exit status %d: %s\n(segment starts by the model: video samples %v; no other track ends before one of them)",
			cmdline, res.Exit, tail(res.Stderr, 600), startsPres), info
	}
	info.class("segmenter-exit-0")

	// ---- collect the output files
	ents, err := os.ReadDir(dir)
	if err != nil {
		return harness.Failf("harness|c11|tmpdir", "%v", err), info
	}
	segFiles := map[string]map[int]string{} // "v" | "a" | "m" -> segment number -> file name
	maxSeg := 0
	for _, e := range ents {
		m := segFileRe.FindStringSubmatch(e.Name())
		if m == nil {
			continue
		}
		k := m[1]
		if k == "" {
			k = "m"
		}
		n, _ := strconv.Atoi(m[2])
		if segFiles[k] == nil {
			segFiles[k] = map[int]string{}
		}
		segFiles[k][n] = e.Name()
		if n > maxSeg {
			maxSeg = n
		}
	}
	type trackOut struct {
		samples   []fragbuild.PSample
		segFirst  []int // index into samples of the first sample of every segment file that holds samples of the track
		emptySegs int   // segment files that hold no sample of the track
		noFile    int   // segment numbers without a file for the track (single-track modes)
	}
	readTrack := func(initName string, kind string, trackID uint32) (*trackOut, *harness.Fail) {
		ib, err := os.ReadFile(filepath.Join(dir, initName))
		if err != nil {
			return nil, harness.Failf("C11|"+area+"|init segment missing", "%v", err)
		}
		ip, err := fragbuild.Read(ib)
		if err != nil || !ip.HasMoov {
			return nil, harness.Failf("C11|"+area+"|init segment unreadable", "%s: %v", initName, err)
		}
		if ip.Track(trackID) == nil {
			return nil, harness.Failf("C11|"+area+"|init segment lacks the track", "%s: no track %d", initName, trackID)
		}
		to := &trackOut{}
		for n := 1; n <= maxSeg; n++ {
			name, ok := segFiles[kind][n]
			if !ok {
				to.noFile++
				continue
			}
			sb, err := os.ReadFile(filepath.Join(dir, name))
			if err != nil {
				return nil, harness.Failf("harness|c11|tmpdir", "%v", err)
			}
			sp, err := fragbuild.ReadWith(sb, ip)
			if err != nil {
				return nil, harness.Failf("C11|"+area+"|media segment unreadable", "%s: %v", name, err)
			}
			if len(sp.Moofs) != 1 {
				return nil, harness.Failf("C11|"+area+"|media segment does not hold exactly one fragment", "%s: %d moof boxes", name, len(sp.Moofs))
			}
			ss := sp.TrackSamples(trackID)
			if len(ss) == 0 {
				to.emptySegs++
				continue
			}
			to.segFirst = append(to.segFirst, len(to.samples))
			to.samples = append(to.samples, ss...)
		}
		return to, nil
	}

	nTypes := map[string]int{}
	for _, tr := range c.Tracks {
		nTypes[tr.Handler]++
	}
	var videoOut *trackOut
	for ti, tr := range c.Tracks {
		var to *trackOut
		var f *harness.Fail
		what := fmt.Sprintf("%s: track #%d (%s)", cmdline, ti+1, tr.Handler)
		if mux {
			to, f = readTrack("out_init.mp4", "m", uint32(ti+1))
		} else {
			letter := map[string]string{"vide": "v", "soun": "a"}[tr.Handler]
			to, f = readTrack("out_"+letter+"1_init.mp4", letter, 1)
		}
		if f != nil {
			return f, info
		}
		want := progModel(tr, c.Layout.Tracks[ti])
		f, dropped := compareSamples(area, what, want, to.samples, avoiding(c.NoAvoid, "segmenter-last-sample-dropped"))
		if f != nil {
			return f, info
		}
		if dropped {
			info.exclude("segmenter-last-sample-dropped")
		}
		if ti == vi {
			videoOut = to
		}
		// a segment (file) in which a track has no sample is accepted (an audio track may end early; for the
		// video track it contradicts no sentence of the property as long as every sample is somewhere): counted
		if to.emptySegs > 0 {
			info.class("segmenter-segment-without-" + tr.Handler + "-samples")
			info.add(mux, "segmenter-mux-segment-without-"+tr.Handler+"-samples", "")
		}
		info.add(to.noFile > 0, "segmenter-segment-number-without-"+tr.Handler+"-file", "")
	}
	// ---- every segment starts with a sync sample of the reference (video) track
	for si, first := range videoOut.segFirst {
		if s := videoOut.samples[first]; !flagsSync(s.Flags) {
			return harness.Failf("C11|"+area+"|segment does not start with a sync sample of the reference track",
				"%s: segment %d of %d with video samples starts with video sample %d (flags %#08x), which is not a sync sample",
				cmdline, si+1, len(videoOut.segFirst), first+1, s.Flags), info
		}
	}
	// ---- the segments start where the documentation puts them (package comment)
	{
		agree := sameInts(startsPres, startsDec)
		info.add(agree, "segmenter-boundary-rule-readings-agree", "segmenter-boundary-rule-readings-differ")
		switch {
		case sameInts(videoOut.segFirst, startsPres):
			info.add(!agree, "segmenter-boundaries-by-presentation-time", "")
		case sameInts(videoOut.segFirst, startsDec):
			info.class("segmenter-boundaries-by-decode-time")
		case wideStep && avoiding(c.NoAvoid, "segmenter-step-truncated-to-32-bits"):
			info.exclude("segmenter-step-truncated-to-32-bits")
		default:
			// C11 asks for segments that start with a sync sample of the reference track (judged above) and for the
			// complete sample sequence; WHICH sync samples become segment starts is the tool's documented choice, not a
			// clause of the property (another tie-breaking after a long GoP keeps C11 true): counted, not judged.
			// strictBoundaries (development aid, VERIF_C11_STRICT_BOUNDARIES=1) turns the documented rule into a failure.
			if strictBoundaries {
				v := c.Tracks[vi]
				return harness.Failf("C11|"+area+"|segment boundary not at the documented sync sample",
					"%s: segments start at video samples %v (0-based); step = %d ms * %d / 1000 = %d ticks: the sync samples with presentation time >= k*step are %v, with decode time >= k*step %v",
					cmdline, videoOut.segFirst, c.SegDurMS, v.Timescale, c.SegDurMS*uint64(v.Timescale)/1000, startsPres, startsDec), info
			}
			info.class("segmenter-boundaries-follow-neither-documented-reading")
		}
		info.add(wideStep, "segmenter-step-beyond-32-bits", "")
	}
	// ---- evidence
	nseg := len(videoOut.segFirst)
	info.add(nseg >= 2, "segmenter-segments>=2", "segmenter-segments-1")
	info.add(nseg >= 4, "segmenter-segments>=4", "")
	offEdge := false
	edges := map[int]bool{}
	sum := 0
	for _, cs := range c.Layout.Tracks[vi].ChunkSizes {
		sum += cs
		edges[sum] = true
	}
	for i, first := range videoOut.segFirst {
		if i > 0 && !edges[first] {
			offEdge = true
		}
	}
	info.add(offEdge, "segmenter-boundary-inside-chunk", "")
	info.nontrivial = nseg >= 2 && offEdge
	return nil, info
}

// syncInsideFinalSample reports whether the start of some sync sample of the video track, converted
// to the timescale of another track, lies strictly inside that track's final sample.
func syncInsideFinalSample(c *segCase) bool {
	vi := videoIndex(c.Tracks)
	v := c.Tracks[vi]
	for ti, tr := range c.Tracks {
		if ti == vi {
			continue
		}
		var total uint64
		for _, s := range tr.Samples {
			total += uint64(s.Dur)
		}
		lastStart := total - uint64(tr.Samples[len(tr.Samples)-1].Dur)
		var st uint64
		for _, s := range v.Samples {
			if s.Sync {
				if t := st * uint64(tr.Timescale) / uint64(v.Timescale); t > lastStart && t < total {
					return true
				}
			}
			st += uint64(s.Dur)
		}
	}
	return false
}

func headTail(s string, n int) string {
	s = strings.TrimSpace(s)
	if len(s) <= 2*n {
		return s
	}
	return s[:n] + "\n...\n" + s[len(s)-n:]
}

// ---- generator

func totalSec(tr mp4build.Track) float64 {
	var d uint64
	for _, s := range tr.Samples {
		d += uint64(s.Dur)
	}
	return float64(d) / float64(tr.Timescale)
}

func genSegmenter(t *rapid.T) (segCase, bool, []string) {
	var excluded []string
	tracks, lay, mode, segDurMS, forced := mp4build.GenSegmenterInputOpt(t, harness.Pick(30, 60), avoiding(false, "segmenter-video-without-stss"), mp4build.SegGenOpt{WideStep: true})
	if forced {
		excluded = append(excluded, "segmenter-video-without-stss")
	}
	return segCase{Tracks: tracks, Layout: lay, Mode: mode, SegDurMS: segDurMS}, true, excluded
}

const batchSize = 16

func TestSegmenter(t *testing.T) {
	needBin(t, "segmenter")
	defer cleanupTmp()
	harness.RunRapid(t, "segmenter", func(rt *rapid.T) {
		runBatch(rt, "segmenter", batchSize, genSegmenter, evalSegmenter)
	})
}

// ---------------------------------------------------------------------------------------------
// fragmented single-track inputs (legs b, c, d)

var (
	fragVideo, fragAudio []byte
)

func fragStsd() (video, audio []byte) {
	if fragVideo == nil {
		v, a, err := mp4build.DefaultStsd()
		if err != nil {
			panic(err)
		}
		fragVideo, fragAudio = v, a
	}
	return fragVideo, fragAudio
}

// genFragTrack draws one track with at least one sample whose first sample is a sync sample.
func genFragTrack(t *rapid.T, maxSamples int, zeroDur bool) fragbuild.Track {
	v, a := fragStsd()
	tr := fragbuild.GenTracks(t, fragbuild.GenOpt{MaxTracks: 1, MaxSamples: maxSamples, VideoStsd: v, AudioStsd: a})[0]
	if len(tr.Samples) == 0 {
		tr.Samples = []fragbuild.Sample{{Data: []byte{0xa1, 0xa2}, Dur: 1024, Flags: fragbuild.FlagsSync}}
	}
	if !tr.Samples[0].Sync() {
		tr.Samples[0].Flags = fragbuild.FlagsSync
	}
	if !zeroDur {
		for i := range tr.Samples {
			if tr.Samples[i].Dur == 0 {
				tr.Samples[i].Dur = 1
			}
		}
	}
	return tr
}

// libLayoutOpt keeps the layouts inside what the library's fragment reader supports (the switches
// documented in internal/fragbuild/disagreements_test.go) and what the tools document as input.
func libLayoutOpt() fragbuild.GenOpt {
	v, a := fragStsd()
	return fragbuild.GenOpt{MaxTracks: 1, MaxSegments: 3, MaxFrags: 3, VideoStsd: v, AudioStsd: a,
		NoSplitTrafs: true, NoLegacyMultiTraf: true, NoOmitDataOffset: true, NoExtraBoxes: true,
		NoEmptyRuns: true, NoEmptyFrags: true, NoNonEmsgAtTopSidxAnchor: true}
}

func fragLayoutClasses(prefix string, tr *fragbuild.Track, lay fragbuild.FileLayout, info *evalInfo) {
	for _, c := range fragbuild.Classes([]fragbuild.Track{*tr}, lay) {
		info.class(prefix + "-in-" + c)
	}
	info.class(prefix + "-handler-" + tr.Handler)
}

// runEdges returns the set of sample counts at which an input trun ends.
func runEdges(lay fragbuild.FileLayout) map[int]bool {
	edges := map[int]bool{}
	n := 0
	for _, sg := range lay.Segments {
		for _, fr := range sg.Frags {
			for _, r := range fr.Runs {
				n += r.N
				edges[n] = true
			}
		}
	}
	return edges
}

// ---------------------------------------------------------------------------------------------
// leg (b): resegmenter

type resegCase struct {
	Track    fragbuild.Track      `json:"track"`
	Layout   fragbuild.FileLayout `json:"layout"`
	ChunkDur uint64               `json:"chunkDur"`
	NoAvoid  bool                 `json:"noAvoid,omitempty"`
}

func checkResegmenter(c resegCase) *harness.Fail {
	f, _ := evalResegmenter(&c)
	return f
}

func evalResegmenter(c *resegCase) (fail *harness.Fail, info evalInfo) {
	if f := missingBin("resegmenter"); f != nil {
		return f, info
	}
	const area = "resegmenter"
	if len(c.Track.Samples) == 0 || c.ChunkDur == 0 {
		return harness.Failf("harness|c11|bad-case", "no samples or chunk duration 0"), info
	}
	tracks := []fragbuild.Track{c.Track}
	init, segs, truth, err := fragbuild.Build(tracks, c.Layout)
	if err != nil {
		return harness.Failf("harness|c11|build", "%v", err), info
	}
	if truth.Consumed[0] != len(c.Track.Samples) {
		return harness.Failf("harness|c11|bad-case", "layout places %d of %d samples", truth.Consumed[0], len(c.Track.Samples)), info
	}
	file := fragbuild.Concat(init, segs, truth)
	fragLayoutClasses("resegmenter", &c.Track, c.Layout, &info)

	dir, err := caseDir()
	if err != nil {
		return harness.Failf("harness|c11|tmpdir", "%v", err), info
	}
	defer os.RemoveAll(dir)
	if err := os.WriteFile(filepath.Join(dir, "in.mp4"), file, 0o644); err != nil {
		return harness.Failf("harness|c11|tmpdir", "%v", err), info
	}
	res := runTool(dir, binPath("resegmenter"), "-d", fmt.Sprint(c.ChunkDur), "in.mp4", "out.mp4")
	if res.StartErr != nil {
		return harness.Failf("harness|c11|cannot start tool", "%v", res.StartErr), info
	}
	info.add(res.SlowUnderLoad, "tool-slow-under-load", "")
	if res.TimedOut {
		return timeLimitFail(area, fmt.Sprintf("resegmenter -d %d", c.ChunkDur), res), info
	}
	if crashed, class := res.crashed(); crashed {
		info.class("resegmenter-exit-crash")
		return harness.Failf("C11|"+area+"|panic ("+class+")", "resegmenter -d %d: exit status %d\n%s", c.ChunkDur, res.Exit, tail(res.Stderr, 1500)), info
	}
	if res.Exit != 0 {
		info.class("resegmenter-exit-error", "resegmenter-exit-error: "+exitReason(res.Stderr))
		return harness.Failf("C11|"+area+"|error on valid input", "resegmenter -d %d: exit status %d: %s", c.ChunkDur, res.Exit, tail(res.Stderr, 600)), info
	}
	info.class("resegmenter-exit-0")
	out, err := os.ReadFile(filepath.Join(dir, "out.mp4"))
	if err != nil {
		return harness.Failf("C11|"+area+"|exit status 0 without output file", "%v", err), info
	}
	p, err := fragbuild.Read(out)
	if err != nil {
		return harness.Failf("C11|"+area+"|output unreadable", "resegmenter -d %d: %v", c.ChunkDur, err), info
	}
	what := fmt.Sprintf("resegmenter -d %d: track %d", c.ChunkDur, c.Track.ID)
	if f, _ := compareSamples(area, what, fragModel(&c.Track), p.TrackSamples(c.Track.ID), false); f != nil {
		return f, info
	}
	// every produced segment (styp moof mdat) holds samples and starts with a sync sample
	pos := 0
	offEdge := false
	edges := runEdges(c.Layout)
	for mi := range p.Moofs {
		ss := p.Moofs[mi].TrackSamples(c.Track.ID)
		if len(ss) == 0 {
			if avoiding(c.NoAvoid, "resegmenter-empty-first-segment") && mi == 0 {
				info.exclude("resegmenter-empty-first-segment")
				continue
			}
			return harness.Failf("C11|"+area+"|segment without samples", "resegmenter -d %d: output segment %d of %d holds no sample (it cannot start with a sync sample); first input sample: decode time %d cto %d",
				c.ChunkDur, mi+1, len(p.Moofs), c.Track.StartTime, c.Track.Samples[0].Cto), info
		}
		if !flagsSync(ss[0].Flags) {
			return harness.Failf("C11|"+area+"|segment does not start with a sync sample of the reference track", "resegmenter -d %d: output segment %d starts with sample %d (flags %#08x)", c.ChunkDur, mi+1, pos+1, ss[0].Flags), info
		}
		if pos > 0 && !edges[pos] {
			offEdge = true
		}
		pos += len(ss)
	}
	if len(p.Styps) != 0 && len(p.Styps) != len(p.Moofs) {
		return harness.Failf("C11|"+area+"|styp and moof counts differ", "%d styp, %d moof", len(p.Styps), len(p.Moofs)), info
	}
	info.add(len(p.Moofs) >= 2, "resegmenter-segments>=2", "resegmenter-segments-1")
	info.add(len(p.Moofs) >= 4, "resegmenter-segments>=4", "")
	var total uint64
	for _, s := range c.Track.Samples {
		total += uint64(s.Dur)
	}
	info.add(total > 0xffffffff, "resegmenter-durations-sum-beyond-32-bits", "")
	info.add(offEdge, "resegmenter-boundary-inside-input-run", "")
	info.nontrivial = len(p.Moofs) >= 2 && offEdge
	return nil, info
}

// genHugeDurs overwrites, in one track out of eight, 2..4 sample durations with values around 2^31 and
// 2^32-1, so that accumulated durations pass 2^32 inside a few samples, and returns true when it did.
// (Decode times are 64-bit; a sum of per-sample durations is not bounded by 32 bits anywhere in 14496-12.)
func genHugeDurs(t *rapid.T, tr *fragbuild.Track) bool {
	if rapid.IntRange(0, 7).Draw(t, "hugeDurs") != 0 {
		return false
	}
	n := len(tr.Samples)
	k := rapid.IntRange(2, 4).Draw(t, "hugeDurCount")
	if k > n {
		k = n
	}
	first := rapid.IntRange(0, n-k).Draw(t, "hugeDurFirst")
	for i := first; i < first+k; i++ {
		tr.Samples[i].Dur = rapid.SampledFrom([]uint32{0x40000000, 0x7fffffff, 0x80000000, 0xffffffff}).Draw(t, "hugeDur")
	}
	return true
}

// fitSidx: a sidx reference holds a 32-bit subsegment_duration; when a segment of the drawn layout lasts
// longer than that (genHugeDurs) it cannot be indexed: the layout loses its sidx boxes, and segments that
// only a top-level sidx delimited become one segment.
func fitSidx(tr *fragbuild.Track, lay *fragbuild.FileLayout) {
	pos, over := 0, false
	for _, sg := range lay.Segments {
		var sum uint64
		for _, fr := range sg.Frags {
			for _, r := range fr.Runs {
				for k := 0; k < r.N && pos < len(tr.Samples); k++ {
					sum += uint64(tr.Samples[pos].Dur)
					pos++
				}
			}
		}
		over = over || (sum > 0xffffffff && (sg.Sidx || lay.TopSidx))
	}
	if !over {
		return
	}
	for i := range lay.Segments {
		lay.Segments[i].Sidx = false
	}
	if lay.TopSidx {
		lay.TopSidx, lay.TopSidxGap = false, 0
		if !lay.Segments[0].Styp {
			for _, sg := range lay.Segments[1:] {
				lay.Segments[0].Frags = append(lay.Segments[0].Frags, sg.Frags...)
			}
			lay.Segments = lay.Segments[:1]
		}
	}
}

// genPrefixTicks draws a target duration from the exact (64-bit) prefix sums of the sample durations,
// -1/0/+1, clipped to 32 bits (the width of the parameter).
func genPrefixTicks(t *rapid.T, tr *fragbuild.Track, label string) uint64 {
	j := rapid.IntRange(1, len(tr.Samples)).Draw(t, label+"Samples")
	var d uint64
	for _, s := range tr.Samples[:j] {
		d += uint64(s.Dur)
	}
	d += uint64(rapid.IntRange(0, 2).Draw(t, label+"Delta"))
	if d > 0 {
		d--
	}
	if d > 0xffffffff {
		d = 0xffffffff
	}
	if d == 0 {
		d = 1
	}
	return d
}

// genChunkDur draws a duration (ticks) related to the sample durations of the track.
func genTicks(t *rapid.T, tr *fragbuild.Track, label string) uint64 {
	var total uint64
	for _, s := range tr.Samples {
		total += uint64(s.Dur)
	}
	n := len(tr.Samples)
	var d uint64
	switch k := rapid.IntRange(0, 9).Draw(t, label+"Kind"); {
	case k < 5: // the duration of the first j samples, -1/0/+1
		j := rapid.IntRange(1, n).Draw(t, label+"Samples")
		for _, s := range tr.Samples[:j] {
			d += uint64(s.Dur)
		}
		d += uint64(rapid.IntRange(0, 2).Draw(t, label+"Delta"))
		if d > 0 {
			d--
		}
	case k < 7:
		d = total / uint64(rapid.IntRange(2, 5).Draw(t, label+"Div"))
	case k == 7:
		d = uint64(rapid.SampledFrom([]uint32{1, 2, 512, 1024, 3000, 90000}).Draw(t, label+"Abs"))
	case k == 8:
		d = total + uint64(rapid.IntRange(0, 1000).Draw(t, label+"Beyond"))
	default:
		d = rapid.Uint64Range(1, total+1).Draw(t, label+"Any")
	}
	if d == 0 {
		d = 1
	}
	return d
}

func genReseg(t *rapid.T) (resegCase, bool, []string) {
	var excluded []string
	tr := genFragTrack(t, harness.Pick(24, 48), true)
	// the tool starts a new segment only at samples that the library calls sync samples
	// (sample_is_non_sync_sample=0 and sample_depends_on=2): make the palette flags of two thirds of the
	// tracks realistic so that splits happen
	if rapid.IntRange(0, 2).Draw(t, "realFlags") != 0 {
		gop := rapid.IntRange(1, 6).Draw(t, "gop")
		for i := range tr.Samples {
			if i%gop == 0 {
				tr.Samples[i].Flags = fragbuild.FlagsSync
			} else {
				tr.Samples[i].Flags = fragbuild.FlagsNonSync
			}
		}
	}
	huge := genHugeDurs(t, &tr)
	lay := fragbuild.GenLayout(t, []fragbuild.Track{tr}, libLayoutOpt())
	otherBase(t, &lay)
	fitSidx(&tr, &lay)
	c := resegCase{Track: tr, Layout: lay}
	if huge && rapid.Bool().Draw(t, "chunkDurPrefix") {
		c.ChunkDur = genPrefixTicks(t, &tr, "chunkDurPrefix")
	} else {
		c.ChunkDur = genTicks(t, &tr, "chunkDur")
	}
	// the tool sizes a slice by nrSamples*firstDuration/chunkDur: keep that below 100000 entries
	if lo := uint64(len(tr.Samples))*uint64(tr.Samples[0].Dur)/100000 + 1; c.ChunkDur < lo {
		c.ChunkDur = lo
	}
	return c, true, excluded
}

func TestResegmenter(t *testing.T) {
	needBin(t, "resegmenter")
	defer cleanupTmp()
	harness.RunRapid(t, "resegmenter", func(rt *rapid.T) {
		runBatch(rt, "resegmenter", batchSize, genReseg, evalResegmenter)
	})
}

// ---------------------------------------------------------------------------------------------
// leg (c): MediaSegment.Fragmentify, in-process

type fragmCase struct {
	Track    fragbuild.Track      `json:"track"`
	Layout   fragbuild.FileLayout `json:"layout"`
	Duration uint32               `json:"duration"`
	NoAvoid  bool                 `json:"noAvoid,omitempty"`
}

func checkFragmentify(c fragmCase) *harness.Fail {
	f, _ := evalFragmentify(&c)
	return f
}

func evalFragmentify(c *fragmCase) (fail *harness.Fail, info evalInfo) {
	const area = "MediaSegment.Fragmentify"
	if len(c.Track.Samples) == 0 {
		return harness.Failf("harness|c11|bad-case", "no samples"), info
	}
	tracks := []fragbuild.Track{c.Track}
	init, segs, truth, err := fragbuild.Build(tracks, c.Layout)
	if err != nil {
		return harness.Failf("harness|c11|build", "%v", err), info
	}
	if truth.Consumed[0] != len(c.Track.Samples) {
		return harness.Failf("harness|c11|bad-case", "layout places %d of %d samples", truth.Consumed[0], len(c.Track.Samples)), info
	}
	file := fragbuild.Concat(init, segs, truth)
	fragLayoutClasses("fragmentify", &c.Track, c.Layout, &info)
	f, err := mp4.DecodeFile(bytes.NewReader(file))
	if err != nil {
		return harness.Failf("C11|"+area+"|library does not decode the input", "%v", err), info
	}
	if f.Init == nil || f.Init.Moov == nil || f.Init.Moov.Mvex == nil || f.Init.Moov.Mvex.Trex == nil {
		return harness.Failf("C11|"+area+"|library does not decode the input", "no init/trex"), info
	}
	trex := f.Init.Moov.Mvex.Trex
	model := fragModel(&c.Track)
	out := append([]byte{}, init[:truth.InitSize]...)
	type span struct{ first, n int } // output fragments as sample ranges
	var frags []span
	inSegEnd := map[int]bool{} // sample counts at which an input segment ends
	pos := 0
	consumed := 0
	for si, seg := range f.Segments {
		ofs, err := seg.Fragmentify(uint64(c.Track.Timescale), trex, c.Duration)
		if err != nil {
			return harness.Failf("C11|"+area+"|error", "Fragmentify(duration %d) of segment %d: %v", c.Duration, si+1, err), info
		}
		var buf bytes.Buffer
		for _, of := range ofs {
			if err := of.Encode(&buf); err != nil {
				return harness.Failf("C11|"+area+"|output fragment does not encode", "%v", err), info
			}
		}
		// read this segment's fragments on their own (offsets are relative to the moof)
		p, err := fragbuild.Read(append(append([]byte{}, init[:truth.InitSize]...), buf.Bytes()...))
		if err != nil {
			return harness.Failf("C11|"+area+"|output unreadable", "Fragmentify(duration %d) of segment %d: %v", c.Duration, si+1, err), info
		}
		if len(p.Moofs) != len(ofs) {
			return harness.Failf("C11|"+area+"|output unreadable", "%d fragments returned, %d moof boxes read", len(ofs), len(p.Moofs)), info
		}
		for mi := range p.Moofs {
			n := len(p.Moofs[mi].TrackSamples(c.Track.ID))
			frags = append(frags, span{pos, n})
			pos += n
		}
		out = append(out, buf.Bytes()...)
		// how many samples the input segment holds (by the layout)
		if si < len(c.Layout.Segments) {
			for _, fr := range c.Layout.Segments[si].Frags {
				for _, r := range fr.Runs {
					consumed += r.N
				}
			}
			inSegEnd[consumed] = true
		}
	}
	if len(f.Segments) != len(c.Layout.Segments) {
		// the library groups fragments into segments by its own rules (styp / sidx / mfra); the comparison of
		// the whole sample list below does not depend on it, the per-fragment duration check does
		info.class("fragmentify-library-segment-count-differs")
		inSegEnd = nil
	}
	p, err := fragbuild.Read(out)
	if err != nil {
		return harness.Failf("C11|"+area+"|output unreadable", "Fragmentify(duration %d): %v", c.Duration, err), info
	}
	what := fmt.Sprintf("Fragmentify(duration %d): track %d", c.Duration, c.Track.ID)
	if fl, _ := compareSamples(area, what, model, p.TrackSamples(c.Track.ID), false); fl != nil {
		return fl, info
	}
	// ---- fragment boundaries: a fragment is closed by the first sample with which its accumulated
	// duration reaches the target; only the last fragment of an input segment may stay below it
	// (Fragmentify works on one segment; the accumulated duration is carried inside that call only)
	edges := runEdges(c.Layout)
	offEdge := false
	if inSegEnd != nil {
		for fi, fr := range frags {
			if fr.n == 0 {
				return harness.Failf("C11|"+area+"|fragment without samples", "Fragmentify(duration %d): output fragment %d of %d is empty", c.Duration, fi+1, len(frags)), info
			}
			var sum uint64
			for _, s := range model[fr.first : fr.first+fr.n] {
				sum += uint64(s.Dur)
			}
			lastDur := uint64(model[fr.first+fr.n-1].Dur)
			end := fr.first + fr.n
			if fr.first > 0 && !edges[fr.first] {
				offEdge = true
			}
			if c.Duration > 0 && sum-lastDur >= uint64(c.Duration) {
				if sum-lastDur > 0xffffffff && avoiding(c.NoAvoid, "fragmentify-accumulated-duration-wraps") {
					info.exclude("fragmentify-accumulated-duration-wraps")
					continue
				}
				// where Fragmentify closes a fragment is its documented behaviour, not a clause of C11 (conservation and order
				// are): counted unless strictBoundaries
				if strictBoundaries {
					return harness.Failf("C11|"+area+"|fragment continues after reaching the target duration",
						"Fragmentify(duration %d): output fragment %d (samples %d..%d) had already accumulated %d before its last sample", c.Duration, fi+1, fr.first+1, end, sum-lastDur), info
				}
				info.class("fragmentify-fragment-continues-after-the-target-duration")
				continue
			}
			if sum < uint64(c.Duration) && !inSegEnd[end] {
				if sum == 0 && fr.n == 1 && avoiding(c.NoAvoid, "fragmentify-zero-duration-sample-closes-fragment") {
					info.exclude("fragmentify-zero-duration-sample-closes-fragment")
					continue
				}
				if strictBoundaries {
					return harness.Failf("C11|"+area+"|fragment closed before reaching the target duration",
						"Fragmentify(duration %d): output fragment %d (samples %d..%d, durations sum %d) is followed by another fragment of the same segment", c.Duration, fi+1, fr.first+1, end, sum), info
				}
				info.class("fragmentify-fragment-closed-before-the-target-duration")
			}
		}
	}
	zero := false
	var total uint64
	for _, s := range c.Track.Samples {
		zero = zero || s.Dur == 0
		total += uint64(s.Dur)
	}
	info.add(zero, "fragmentify-zero-duration-samples", "")
	info.add(total > 0xffffffff, "fragmentify-durations-sum-beyond-32-bits", "")
	info.add(len(frags) >= 2, "fragmentify-fragments>=2", "fragmentify-fragments-1")
	info.add(len(frags) > len(f.Segments), "fragmentify-segment-split", "")
	info.add(offEdge, "fragmentify-boundary-inside-input-run", "")
	info.nontrivial = len(frags) > len(f.Segments) && offEdge
	return nil, info
}

func genFragm(t *rapid.T) (fragmCase, bool, []string) {
	tr := genFragTrack(t, harness.Pick(24, 48), true)
	huge := genHugeDurs(t, &tr)
	lay := fragbuild.GenLayout(t, []fragbuild.Track{tr}, libLayoutOpt())
	otherBase(t, &lay)
	fitSidx(&tr, &lay)
	c := fragmCase{Track: tr, Layout: lay}
	var d uint64
	if huge {
		d = genPrefixTicks(t, &tr, "durationPrefix")
	} else {
		d = genTicks(t, &tr, "duration")
	}
	if rapid.IntRange(0, 19).Draw(t, "durationZero") == 0 {
		d = 0
	}
	if d > 0xffffffff {
		d = 0xffffffff
	}
	c.Duration = uint32(d)
	return c, true, nil
}

func TestFragmentify(t *testing.T) {
	harness.RunRapid(t, "fragmentify", func(rt *rapid.T) {
		runBatch(rt, "fragmentify", batchSize, genFragm, evalFragmentify)
	})
}

// ---------------------------------------------------------------------------------------------
// leg (d): combine-segs

type combineInput struct {
	Track  fragbuild.Track      `json:"track"`
	Layout fragbuild.FileLayout `json:"layout"`
}

type combineCase struct {
	Inputs  [2]combineInput `json:"inputs"` // testdata/V300 and testdata/A48
	NoAvoid bool            `json:"noAvoid,omitempty"`
}

func checkCombine(c combineCase) *harness.Fail {
	f, _ := evalCombine(&c)
	return f
}

var combineDirs = [2]string{"testdata/V300", "testdata/A48"}

func evalCombine(c *combineCase) (fail *harness.Fail, info evalInfo) {
	if f := missingBin("combine-segs"); f != nil {
		return f, info
	}
	const area = "combine-segs"
	dir, err := caseDir()
	if err != nil {
		return harness.Failf("harness|c11|tmpdir", "%v", err), info
	}
	defer os.RemoveAll(dir)
	for i, in := range c.Inputs {
		if len(in.Layout.Segments) != 1 || len(in.Layout.Segments[0].Frags) != 1 {
			return harness.Failf("harness|c11|bad-case", "input %d: the tool takes one segment with one fragment", i), info
		}
		if !in.Layout.Segments[0].Frags[0].Opts.ForceAllPerSample {
			return harness.Failf("harness|c11|bad-case", "input %d: the tool documents that it does not apply trex defaults", i), info
		}
		init, segs, truth, err := fragbuild.Build([]fragbuild.Track{in.Track}, in.Layout)
		if err != nil {
			return harness.Failf("harness|c11|build", "%v", err), info
		}
		if truth.Consumed[0] != len(in.Track.Samples) || len(segs) != 1 {
			return harness.Failf("harness|c11|bad-case", "input %d: layout places %d of %d samples in %d segments", i, truth.Consumed[0], len(in.Track.Samples), len(segs)), info
		}
		d := filepath.Join(dir, combineDirs[i])
		if err := os.MkdirAll(d, 0o755); err != nil {
			return harness.Failf("harness|c11|tmpdir", "%v", err), info
		}
		if err := os.WriteFile(filepath.Join(d, "init.mp4"), init[:truth.InitSize], 0o644); err != nil {
			return harness.Failf("harness|c11|tmpdir", "%v", err), info
		}
		if err := os.WriteFile(filepath.Join(d, "1.m4s"), segs[0], 0o644); err != nil {
			return harness.Failf("harness|c11|tmpdir", "%v", err), info
		}
		fragLayoutClasses(fmt.Sprintf("combinesegs-%d", i+1), &c.Inputs[i].Track, in.Layout, &info)
	}
	res := runTool(dir, binPath("combine-segs"))
	if res.StartErr != nil {
		return harness.Failf("harness|c11|cannot start tool", "%v", res.StartErr), info
	}
	info.add(res.SlowUnderLoad, "tool-slow-under-load", "")
	if res.TimedOut {
		return timeLimitFail(area, "combine-segs", res), info
	}
	if crashed, class := res.crashed(); crashed {
		info.class("combinesegs-exit-crash")
		return harness.Failf("C11|"+area+"|panic ("+class+")", "combine-segs: exit status %d\n%s", res.Exit, tail(res.Stderr, 1500)), info
	}
	if res.Exit != 0 {
		info.class("combinesegs-exit-error", "combinesegs-exit-error: "+exitReason(res.Stderr))
		return harness.Failf("C11|"+area+"|error on valid input", "combine-segs: exit status %d: %s", res.Exit, tail(res.Stderr, 600)), info
	}
	info.class("combinesegs-exit-0")
	ib, err1 := os.ReadFile(filepath.Join(dir, "combined-init.mp4"))
	sb, err2 := os.ReadFile(filepath.Join(dir, "combined-1.m4s"))
	if err1 != nil || err2 != nil {
		return harness.Failf("C11|"+area+"|exit status 0 without output files", "%v %v", err1, err2), info
	}
	p, err := fragbuild.Read(append(append([]byte{}, ib...), sb...))
	if err != nil {
		return harness.Failf("C11|"+area+"|output unreadable", "%v", err), info
	}
	if len(p.Tracks) != 2 || p.Track(1) == nil || p.Track(2) == nil {
		return harness.Failf("C11|"+area+"|combined init does not hold tracks 1 and 2", "%d tracks", len(p.Tracks)), info
	}
	if len(p.Moofs) != 1 {
		return harness.Failf("C11|"+area+"|combined segment does not hold exactly one fragment", "%d moof boxes", len(p.Moofs)), info
	}
	multiTrun := false
	for i := range c.Inputs {
		tr := &c.Inputs[i].Track
		if ot := p.Track(uint32(i + 1)); ot.Timescale != tr.Timescale || !bytes.Equal(ot.StsdRaw, tr.StsdRaw) {
			return harness.Failf("C11|"+area+"|track header differs", "output track %d: timescale %d, stsd %d bytes; input timescale %d, stsd %d bytes", i+1, ot.Timescale, len(ot.StsdRaw), tr.Timescale, len(tr.StsdRaw)), info
		}
		what := fmt.Sprintf("combine-segs: input %s (track %d) -> output track %d", combineDirs[i], tr.ID, i+1)
		if f, _ := compareSamples(area, what, fragModel(tr), p.TrackSamples(uint32(i+1)), false); f != nil {
			return f, info
		}
		multiTrun = multiTrun || len(c.Inputs[i].Layout.Segments[0].Frags[0].Runs) > 1
	}
	// the reference (first, video) track starts the segment with a sync sample
	if ss := p.TrackSamples(1); len(ss) > 0 && !flagsSync(ss[0].Flags) {
		return harness.Failf("C11|"+area+"|segment does not start with a sync sample of the reference track", "flags %#08x", ss[0].Flags), info
	}
	info.add(multiTrun, "combinesegs-input-with-several-truns", "")
	info.nontrivial = len(c.Inputs[0].Track.Samples) >= 2 && len(c.Inputs[1].Track.Samples) >= 2
	return nil, info
}

func genCombineInput(t *rapid.T) combineInput {
	tr := genFragTrack(t, harness.Pick(16, 32), true)
	n := len(tr.Samples)
	// one segment, one fragment, one traf; 1..3 truns; every value per sample
	var runs []fragbuild.Run
	nr := rapid.IntRange(1, min(3, n)).Draw(t, "nruns")
	cuts := []int{0}
	if nr > 1 {
		cs := rapid.SliceOfN(rapid.IntRange(1, n-1), nr-1, nr-1).Draw(t, "runCuts")
		sort.Ints(cs)
		cuts = append(cuts, cs...)
	}
	cuts = append(cuts, n)
	for k := 0; k+1 < len(cuts); k++ {
		if cuts[k+1] > cuts[k] {
			runs = append(runs, fragbuild.Run{Track: 0, N: cuts[k+1] - cuts[k]})
		}
	}
	fr := fragbuild.Frag{Runs: runs, MdatLarge: rapid.IntRange(0, 5).Draw(t, "mdatLarge") == 0}
	fr.Opts = fragbuild.FragOpts{ForceAllPerSample: true,
		// 0 default-base-is-moof, 2 no base flag (first traf: relative to the moof). An explicit
		// base_data_offset (1) is a file position: fragbuild computes it for init ++ segment, the media
		// segment is stored alone here
		Base:        rapid.SampledFrom([]int{0, 2}).Draw(t, "base"),
		TrunVersion: rapid.IntRange(0, 1).Draw(t, "trunVersion"),
		TfdtVersion: rapid.IntRange(0, 1).Draw(t, "tfdtVersion"),
		TfhdDescIdx: rapid.IntRange(0, 3).Draw(t, "tfhdDescIdx") == 0}
	styp := rapid.Bool().Draw(t, "styp")
	seg := fragbuild.Segment{Styp: styp, Sidx: styp && rapid.IntRange(0, 3).Draw(t, "sidx") == 0, Frags: []fragbuild.Frag{fr}}
	lay := fragbuild.FileLayout{Segments: []fragbuild.Segment{seg}, SeqStart: rapid.SampledFrom([]uint32{0, 1, 1, 7, 0xfffffffe}).Draw(t, "seqStart")}
	return combineInput{Track: tr, Layout: lay}
}

func genCombine(t *rapid.T) (combineCase, bool, []string) {
	var c combineCase
	c.Inputs[0] = genCombineInput(t)
	c.Inputs[1] = genCombineInput(t)
	return c, true, nil
}

func TestCombineSegs(t *testing.T) {
	needBin(t, "combine-segs")
	defer cleanupTmp()
	harness.RunRapid(t, "combinesegs", func(rt *rapid.T) {
		runBatch(rt, "combinesegs", batchSize, genCombine, evalCombine)
	})
}

// otherBase: in 1 layout of 6 the fragments with an explicit base_data_offset (= moof start) get one that is NOT the
// moof start (fragbuild Base 3): the trun data offsets then count from that other absolute position.
func otherBase(t *rapid.T, lay *fragbuild.FileLayout) {
	if rapid.IntRange(0, 5).Draw(t, "otherBase") != 0 {
		return
	}
	for si := range lay.Segments {
		for fi := range lay.Segments[si].Frags {
			if o := &lay.Segments[si].Frags[fi].Opts; o.Base == 1 {
				o.Base = 3
			}
		}
	}
}
