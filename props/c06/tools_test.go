package c06

// The BUILT command line tools cmd/mp4ff-encrypt and cmd/mp4ff-decrypt (anchors of C06) run as subprocesses on
// the same generated inputs and in the same three hand-over modes as TestRoundTrip (whole file, init given
// aside for decryption, init given aside for encryption and decryption); their output files are judged by
// the same judgeRoundTrip. TestRoundTrip mirrors the tools' sequence of library calls in-process (many more
// cases); this leg covers what the tools themselves add (option handling, per-fragment bookkeeping in main).

import (
	"encoding/hex"
	"encoding/json"
	"os"
	"path/filepath"
	"strings"
	"testing"

	"pgregory.net/rapid"

	"verif/internal/cryptgen"
	"verif/internal/harness"
)

func init() { harness.RegisterReplay("crypttools", harness.Replayer(checkTools)) }

const toolBatch = 12

func toolFail(name string, r toolResult) *harness.Fail {
	if c, class := r.crashed(); c {
		return harness.Failf("C06|"+name+"|panic ("+class+")", "%s", tail(r.Stderr, 1500))
	}
	return harness.Failf("C06|"+name+"|error on valid input", "exit %d: %s", r.Exit, tail(r.Stderr+r.Stdout, 600))
}

// checkTools: as for checkRoundTrip, a refusal of mp4ff-encrypt is correct when a sample's sub-sample table
// cannot be sized by saiz.
func checkTools(rc rtCase) *harness.Fail {
	f := checkTools1(rc)
	if f != nil && rc.Case.SaizLimit() && strings.HasPrefix(f.Key, "C06|mp4ff-encrypt") && strings.HasSuffix(f.Key, "|error on valid input") {
		harness.Rec.Class("refused: sub-sample table beyond the saiz size limit")
		return nil
	}
	return f
}

func checkTools1(rc rtCase) *harness.Fail {
	if f := missingBin("mp4ff-encrypt", "mp4ff-decrypt"); f != nil {
		return f
	}
	c := rc.Case
	b, err := c.Build()
	if err != nil {
		return harness.Failf("harness|cryptgen.Build", "%v", err)
	}
	dir, err := caseDir()
	if err != nil {
		return harness.Failf("harness|c06|scratch directory", "%v", err)
	}
	defer os.RemoveAll(dir)
	write := func(name string, data []byte) string {
		p := filepath.Join(dir, name)
		if err := os.WriteFile(p, data, 0o644); err != nil {
			panic(err)
		}
		return p
	}
	read := func(name string) []byte {
		data, _ := os.ReadFile(filepath.Join(dir, name))
		return data
	}
	encArgs := []string{"-key", hex.EncodeToString(c.Key), "-iv", hex.EncodeToString(c.IV)}
	ownInit := append([]string{"-kid", hex.EncodeToString(c.KID), "-scheme", c.Scheme}, encArgs...)
	if len(c.Pssh) > 0 {
		ownInit = append(ownInit, "-pssh", write("pssh.bin", c.Pssh))
	}
	decKey := []string{"-key", hex.EncodeToString(c.Key)}
	enc, dec := binPath("mp4ff-encrypt"), binPath("mp4ff-decrypt")

	if rc.Mode == "" {
		write("clear.mp4", b.File)
		if r := runTool(dir, enc, append(ownInit, "clear.mp4", "enc.mp4")...); r.Exit != 0 {
			return toolFail("mp4ff-encrypt", r)
		}
		if r := runTool(dir, dec, append(decKey, "enc.mp4", "out.mp4")...); r.Exit != 0 {
			return toolFail("mp4ff-decrypt", r)
		}
		return judgeRoundTrip(&c, b, read("out.mp4"))
	}
	n := splitInit(b.File)
	var encInit, encMedia []byte
	if rc.Mode == "splitenc" {
		write("init.mp4", b.File[:n])
		write("media.m4s", b.File[n:])
		if r := runTool(dir, enc, append(ownInit, "init.mp4", "einit.mp4")...); r.Exit != 0 {
			return toolFail("mp4ff-encrypt(init alone)", r)
		}
		if r := runTool(dir, enc, append(append([]string{"-init", "einit.mp4"}, encArgs...), "media.m4s", "emedia.m4s")...); r.Exit != 0 {
			return toolFail("mp4ff-encrypt -init", r)
		}
		encInit, encMedia = read("einit.mp4"), read("emedia.m4s")
	} else {
		write("clear.mp4", b.File)
		if r := runTool(dir, enc, append(ownInit, "clear.mp4", "enc.mp4")...); r.Exit != 0 {
			return toolFail("mp4ff-encrypt", r)
		}
		e := read("enc.mp4")
		k := splitInit(e)
		encInit, encMedia = e[:k], e[k:]
		write("einit.mp4", encInit)
		write("emedia.m4s", encMedia)
	}
	if r := runTool(dir, dec, append(append([]string{"-init", "einit.mp4"}, decKey...), "emedia.m4s", "omedia.m4s")...); r.Exit != 0 {
		return toolFail("mp4ff-decrypt -init", r)
	}
	// the tool does not write an init that was given aside: the init is decrypted through the library
	outInit, f := decryptInitAlone(encInit)
	if f != nil {
		return f
	}
	return judgeRoundTrip(&c, b, append(outInit, read("omedia.m4s")...))
}

func TestTools(t *testing.T) {
	needBin(t, "mp4ff-encrypt", "mp4ff-decrypt")
	defer cleanupTmp()
	harness.RunRapid(t, "tools", func(rt *rapid.T) {
		cases := make([]rtCase, toolBatch)
		for i := range cases {
			cases[i] = rtCase{Case: cryptgen.Gen(rt, cryptgen.GenOpt{Avoid: avoidKnown})}
			cases[i].Mode = rapid.SampledFrom([]string{"", "", "splitdec", "splitenc"}).Draw(rt, "mode")
		}
		fails := make([]*harness.Fail, len(cases))
		parallel(len(cases), func(i int) {
			fails[i] = harness.Guarded(func() *harness.Fail { return checkTools(cases[i]) })
		})
		for i := range cases {
			c := &cases[i]
			raw, _ := json.Marshal(c)
			mode := c.Mode
			if mode == "" {
				mode = "whole"
			}
			harness.Rec.Case(cryptgen.ExpectProtected(&c.Case), raw, append(cryptgen.Classes(&c.Case), "mode-"+mode)...)
			if harness.Rec.WantSample() && len(raw) < 6000 && cryptgen.ExpectProtected(&c.Case) {
				harness.Rec.Sample(map[string]interface{}{"kind": "crypttools", "case": c})
			}
		}
		for i := range cases {
			if fails[i] != nil {
				harness.Report(rt, "crypttools", cases[i], fails[i])
			}
		}
	})
}
