package c06

import (
	"verif/internal/cryptgen"
	"verif/internal/harness"
)

type tpCase struct{ Clear cryptgen.Case }
type repoFileCase struct{ File string }

func checkThirdParty(c tpCase) *harness.Fail     { return nil }
func checkRepoFile(c repoFileCase) *harness.Fail { return nil }
