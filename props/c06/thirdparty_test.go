package c06

// Second leg of C06: content the library did not encrypt itself.
//
//	(i)  files encrypted by the harness (internal/refcrypto) and written by fragbuild, with layouts the
//	     library's own encryptor never emits: 8-byte per-sample IVs, 8-byte constant IVs, senc in front of
//	     saiz/saio, aux_info_type in saiz/saio, 64-bit saio offsets, sub-sample maps with other legal split
//	     points (extra zero-protected entries, clear leads other than the library's, fully clear NAL units,
//	     protected ranges that are no multiple of 16), audio with a clear lead, 'seig' sample groups, cbcs
//	     patterns 0:0 and 10:0 on video. mp4ff-decrypt's pipeline must return the clear samples.
//	(ii) the encrypted files of the repository's test data with their documented keys: sizes and timing of
//	     every sample are the same before and after decryption, and the decrypted bytes equal what
//	     refcrypto computes from the file's own tenc/senc signalling (not for the PIFF files, whose
//	     signalling sits in uuid boxes: sizes and timing only).

import (
	"bytes"
	"encoding/binary"
	"encoding/json"
	"fmt"
	"os"
	"path/filepath"
	"testing"

	"github.com/Eyevinn/mp4ff/mp4"
	"pgregory.net/rapid"

	"verif/internal/boxwalk"
	"verif/internal/cryptgen"
	"verif/internal/fragbuild"
	"verif/internal/harness"
	"verif/internal/refcrypto"
)

type tpCase struct {
	Clear     cryptgen.Case      `json:"clear"`
	IVSize    int                `json:"ivSize"` // cenc: per-sample IV size (8|16); cbcs: constant IV size (8|16)
	IVs       []harness.HexBytes `json:"ivs,omitempty"`
	Subs      [][][2]uint32      `json:"subs"` // per sample; nil entry = no map (all samples then)
	UseSubs   bool               `json:"useSubs"`
	Crypt     byte               `json:"crypt"`
	Skip      byte               `json:"skip"`
	SencFirst bool               `json:"sencFirst,omitempty"`
	AuxType   bool               `json:"auxType,omitempty"`
	SaioV1    bool               `json:"saioV1,omitempty"`
	Seig      bool               `json:"seig,omitempty"`
	// OverrideFrags (per fragment, nil: none): the fragment carries a fragment-local 'seig' sample group entry that
	// overrides the track's tenc with per-sample IVs of OvIVSize bytes (cbcs: instead of the constant IV; cenc:
	// the other IV size); its samples are encrypted with OvIVs (one per sample of the file, used in those
	// fragments only) and senc carries them. Fragments without override follow tenc.
	OverrideFrags []bool             `json:"overrideFrags,omitempty"`
	OvIVSize      int                `json:"ovIVSize,omitempty"`
	OvIVs         []harness.HexBytes `json:"ovIVs,omitempty"`
	// SinfPos: place of sinf among the children of the protected sample entry: 0 = last (as mp4ff writes it),
	// 1 = first, 2 = behind the first child
	SinfPos int `json:"sinfPos,omitempty"`
}

// override reports whether sample i lies in a fragment with a seig override.
func (c *tpCase) override(i int) bool {
	if c.OverrideFrags == nil {
		return false
	}
	first := 0
	for f := range c.Clear.Frags {
		if i < first+c.Clear.Frags[f].N {
			return f < len(c.OverrideFrags) && c.OverrideFrags[f]
		}
		first += c.Clear.Frags[f].N
	}
	return false
}

func (c *tpCase) tenc() cryptgen.TencParams {
	t := cryptgen.TencParams{KID: c.Clear.KID}
	if c.Clear.Scheme == "cenc" {
		t.IVSize = byte(c.IVSize)
	} else {
		t.Version, t.Crypt, t.Skip = 1, c.Crypt, c.Skip
		t.ConstIV = c.Clear.IV16()[:c.IVSize]
	}
	return t
}

// buildEncrypted writes the encrypted file with the harness' own cipher and writer.
func (c *tpCase) buildEncrypted() (*cryptgen.Built, [][]byte, error) {
	cl := &c.Clear
	if err := cl.Validate(); err != nil {
		return nil, nil, err
	}
	n := len(cl.Samples)
	if len(c.Subs) != n || (cl.Scheme == "cenc" && len(c.IVs) != n) {
		return nil, nil, fmt.Errorf("tpCase: per-sample lists do not match the %d samples", n)
	}
	tenc := c.tenc()
	clear := make([][]byte, n)
	enc := make([][]byte, n)
	entries := make([]cryptgen.SencEntry, n)
	for i := range cl.Samples {
		clear[i] = cl.Samples[i].Bytes()
		ranges := refcrypto.Whole(len(clear[i]))
		if c.UseSubs {
			var ss []refcrypto.SubSample
			for _, p := range c.Subs[i] {
				if p[0] > 65535 {
					return nil, nil, fmt.Errorf("tpCase: clear count %d", p[0])
				}
				ss = append(ss, refcrypto.SubSample{Clear: uint16(p[0]), Protected: p[1]})
			}
			var total int
			ranges, total = refcrypto.RangesOf(ss)
			if total != len(clear[i]) || len(ss) == 0 {
				return nil, nil, fmt.Errorf("tpCase: sub-sample map of sample %d covers %d of %d bytes", i, total, len(clear[i]))
			}
			entries[i].Subs = c.Subs[i]
		}
		if c.override(i) {
			if i >= len(c.OvIVs) || len(c.OvIVs[i]) != c.OvIVSize || (c.OvIVSize != 8 && c.OvIVSize != 16) {
				return nil, nil, fmt.Errorf("tpCase: override IV size")
			}
			iv := make([]byte, 16)
			copy(iv, c.OvIVs[i])
			if cl.Scheme == "cenc" {
				enc[i] = refcrypto.CencCrypt(cl.Key, iv, clear[i], ranges)
			} else {
				enc[i] = refcrypto.CbcsCrypt(cl.Key, iv, clear[i], ranges, int(c.Crypt), int(c.Skip), false)
			}
			entries[i].IV = c.OvIVs[i]
		} else if cl.Scheme == "cenc" {
			if len(c.IVs[i]) != c.IVSize {
				return nil, nil, fmt.Errorf("tpCase: IV size")
			}
			iv := make([]byte, 16)
			copy(iv, c.IVs[i])
			enc[i] = refcrypto.CencCrypt(cl.Key, iv, clear[i], ranges)
			entries[i].IV = c.IVs[i]
		} else {
			enc[i] = refcrypto.CbcsCrypt(cl.Key, tenc.ConstIV, clear[i], ranges, int(c.Crypt), int(c.Skip), false)
		}
	}
	stsd := cryptgen.ProtectStsdAt(cl.Stsd, cl.Scheme, tenc, c.SinfPos-1)
	first := 0
	firstOf := make([]int, len(cl.Frags))
	for f := range cl.Frags {
		firstOf[f] = first
		first += cl.Frags[f].N
	}
	b, err := cl.BuildWith(stsd, enc, func(f int, own []fragbuild.ExtraBox) []fragbuild.ExtraBox {
		es := entries[firstOf[f] : firstOf[f]+cl.Frags[f].N]
		sizes := make([]int, len(es))
		for i, e := range es {
			sizes[i] = len(e.IV)
			if c.UseSubs {
				sizes[i] += 2 + 6*len(e.Subs)
			}
		}
		raw := func(box []byte) fragbuild.ExtraBox {
			return fragbuild.ExtraBox{Type: string(box[4:8]), Payload: box[8:]}
		}
		v := byte(0)
		if c.SaioV1 {
			v = 1
		}
		saiz, saio, senc := raw(cryptgen.SaizBox(sizes, c.AuxType)), raw(cryptgen.SaioBox(0, v, c.AuxType)), raw(cryptgen.SencBox(es, c.UseSubs))
		out := append([]fragbuild.ExtraBox(nil), own...)
		if c.OverrideFrags != nil && f < len(c.OverrideFrags) && c.OverrideFrags[f] {
			ov := tenc
			ov.IVSize, ov.ConstIV = byte(c.OvIVSize), nil
			sbgp, sgpd := cryptgen.SeigBoxes(len(es), ov)
			out = append(out, raw(sbgp), raw(sgpd))
		} else if c.Seig {
			sbgp, sgpd := cryptgen.SeigBoxes(len(es), tenc)
			out = append(out, raw(sbgp), raw(sgpd))
		}
		if c.SencFirst {
			return append(out, senc, saiz, saio)
		}
		return append(out, saiz, saio, senc)
	})
	if err != nil {
		return nil, nil, err
	}
	// saio offsets: relative to the moof start, pointing at the first senc entry
	top, err := boxwalk.WalkAll(b.File)
	if err != nil {
		return nil, nil, err
	}
	for _, moof := range top {
		if moof.Type != "moof" {
			continue
		}
		senc, saio := boxwalk.Find(moof.Children, "senc"), boxwalk.Find(moof.Children, "saio")
		if len(senc) != 1 || len(saio) != 1 {
			return nil, nil, fmt.Errorf("tpCase: senc/saio not found in the written moof")
		}
		off := uint64(senc[0].PayloadStart() + 8 - moof.Start)
		end := saio[0].End()
		if c.SaioV1 {
			for k := 0; k < 8; k++ {
				b.File[end-1-k] = byte(off >> (8 * uint(k)))
			}
		} else {
			for k := 0; k < 4; k++ {
				b.File[end-1-k] = byte(off >> (8 * uint(k)))
			}
		}
	}
	return b, clear, nil
}

func checkThirdParty(c tpCase) *harness.Fail {
	b, clear, err := c.buildEncrypted()
	if err != nil {
		return harness.Failf("harness|tpCase.buildEncrypted", "%v", err)
	}
	// the file must make sense to the independent reader, and be what it is meant to be
	if _, err := fragbuild.Read(b.File); err != nil {
		return harness.Failf("harness|tpCase.buildEncrypted", "written file does not read back: %v", err)
	}
	out, f := decryptLikeCLI(b.File, c.Clear.Key)
	if f != nil {
		f.Key = "C06|third-party" + f.Key[len("C06"):]
		return f
	}
	ot, werr := boxwalk.WalkAll(out)
	if werr != nil {
		return harness.Failf("C06|third-party|output box structure broken", "%v", werr)
	}
	if e := cryptgen.EntryOf(ot); e == nil || e.Type != c.Clear.Codec {
		return harness.Failf("C06|third-party|sample entry type not restored", "want %q", c.Clear.Codec)
	} else if len(boxwalk.Find(e.Children, "sinf")) != 0 {
		return harness.Failf("C06|third-party|sinf left in the sample entry", "")
	} else {
		// every child of the clear sample entry is still there, unchanged and in order
		want := childTypesAndBytes(c.Clear.Stsd[16:])
		got := childTypesAndBytes(out[e.Start:e.End()])
		if len(got) != len(want) {
			return harness.Failf("C06|third-party|children of the sample entry not kept through decryption", "decrypted entry has %d children %v, the clear entry %d %v (sinf was child %d of the protected entry)", len(got), names(got), len(want), names(want), c.SinfPos)
		}
		for i := range want {
			if !bytes.Equal(got[i], want[i]) {
				return harness.Failf("C06|third-party|children of the sample entry not kept through decryption", "child %d: %x, clear %x", i, got[i], want[i])
			}
		}
	}
	p, err := fragbuild.Read(out)
	if err != nil {
		return harness.Failf("C06|third-party|output data offsets or sample tables do not resolve", "%v", err)
	}
	return compareSamples("C06|third-party", p, &c.Clear, clear)
}

// genSubs draws a legal sub-sample map for a video sample. ivSize is the per-sample IV size written to senc:
// the entry count is kept within what the 8-bit sample_info_size of saiz can describe (ivSize + 2 + 6n <= 255)
// by leaving the NAL units clear that would exceed it (a packager is free to do that).
func genSubs(t *rapid.T, c *cryptgen.Case, i int, style int, ivSize int) [][2]uint32 {
	var out [][2]uint32
	clear := 0
	total := 0
	for _, sp := range c.Spans(i) {
		total += 4 + sp.Len
	}
	maxN := (255-ivSize-2)/6 - 3 - total/65535
	flush := func(prot int) {
		// split the clear run: at most 65535 per entry, and sometimes at arbitrary extra points
		for clear > 65535 {
			out = append(out, [2]uint32{65535, 0})
			clear -= 65535
		}
		if clear > 1 && rapid.IntRange(0, 9).Draw(t, "extraSplit") == 0 {
			k := rapid.IntRange(1, clear-1).Draw(t, "splitAt")
			out = append(out, [2]uint32{uint32(k), 0})
			clear -= k
		}
		out = append(out, [2]uint32{uint32(clear), uint32(prot)})
		clear = 0
	}
	for _, sp := range c.Spans(i) {
		clear += 4
		min := sp.NalHdr
		if c.Scheme == "cbcs" {
			min = sp.Hdr
		}
		if !sp.VCL || sp.Len <= min || len(out) >= maxN {
			clear += sp.Len
			continue
		}
		lead := min
		switch style {
		case 0: // as tight as the scheme allows
		case 1: // the whole header (and for cenc a multiple of 16 after it)
			lead = sp.Hdr
			if c.Scheme == "cenc" {
				lead += (sp.Len - sp.Hdr) % 16
			}
		case 2:
			lead = rapid.IntRange(min, sp.Len).Draw(t, "lead")
		default:
			lead = min + rapid.IntRange(0, 40).Draw(t, "leadSmall")
		}
		if lead > sp.Len {
			lead = sp.Len
		}
		clear += lead
		if sp.Len-lead > 0 {
			flush(sp.Len - lead)
		}
	}
	if clear > 0 || len(out) == 0 {
		flush(0)
	}
	return out
}

// childTypesAndBytes splits the children of a sample entry (visual or mp4a) into their raw boxes.
func childTypesAndBytes(entry []byte) [][]byte {
	at := 8 + 78
	if len(entry) >= 8 && (string(entry[4:8]) == "mp4a" || string(entry[4:8]) == "enca") {
		at = 8 + 28
	}
	var out [][]byte
	for at+8 <= len(entry) {
		n := int(binary.BigEndian.Uint32(entry[at:]))
		if n < 8 || at+n > len(entry) {
			break
		}
		out = append(out, entry[at:at+n])
		at += n
	}
	return out
}

func names(bs [][]byte) []string {
	var out []string
	for _, b := range bs {
		out = append(out, string(b[4:8]))
	}
	return out
}

func genThirdParty(t *rapid.T) tpCase {
	avoid := map[string]bool{cryptgen.FeatExplicitBase: avoidKnown[cryptgen.FeatExplicitBase]}
	c := tpCase{Clear: cryptgen.Gen(t, cryptgen.GenOpt{Avoid: avoid})}
	cl := &c.Clear
	cl.Pssh = nil
	c.IVSize = rapid.SampledFrom([]int{8, 16}).Draw(t, "tpIVSize")
	c.SencFirst = rapid.Bool().Draw(t, "sencFirst")
	c.AuxType = rapid.Bool().Draw(t, "auxType")
	c.SaioV1 = rapid.IntRange(0, 3).Draw(t, "saioV1") == 0
	c.Seig = rapid.IntRange(0, 2).Draw(t, "seig") == 0
	c.SinfPos = rapid.SampledFrom([]int{0, 0, 1, 2}).Draw(t, "sinfPos")
	n := len(cl.Samples)
	if rapid.IntRange(0, 3).Draw(t, "seigOverride") == 0 {
		// key-rotation style layout: some fragments override the track's tenc through a fragment-local seig entry
		c.OverrideFrags = make([]bool, len(cl.Frags))
		any := false
		for f := range c.OverrideFrags {
			c.OverrideFrags[f] = rapid.Bool().Draw(t, "overrideFrag")
			any = any || c.OverrideFrags[f]
		}
		if !any {
			c.OverrideFrags[rapid.IntRange(0, len(cl.Frags)-1).Draw(t, "overrideWhich")] = true
		}
		if cl.Scheme == "cenc" {
			c.OvIVSize = 24 - c.IVSize // the other one of 8 and 16
		} else {
			c.OvIVSize = rapid.SampledFrom([]int{8, 16, 16}).Draw(t, "ovIVSize")
		}
		for i := 0; i < n; i++ {
			iv := rapid.SliceOfN(rapid.Byte(), c.OvIVSize, c.OvIVSize).Draw(t, "ovIV")
			if c.OvIVSize == 16 && cl.Scheme == "cenc" {
				iv[8], iv[9], iv[10], iv[11] = 0, 0, 0, 0 // room for the block counter of a sample
			}
			c.OvIVs = append(c.OvIVs, iv)
		}
	}
	c.Subs = make([][][2]uint32, n)
	if cl.Video() {
		c.UseSubs = true
		style := rapid.IntRange(0, 3).Draw(t, "subStyle")
		for i := 0; i < n; i++ {
			ivs := 0
			if cl.Scheme == "cenc" {
				ivs = c.IVSize
			}
			if c.OverrideFrags != nil {
				ivs = 16 // the larger of the IV sizes in the file
			}
			c.Subs[i] = genSubs(t, cl, i, style, ivs)
		}
		if cl.Scheme == "cbcs" {
			pat := rapid.SampledFrom([][2]byte{{1, 9}, {1, 9}, {1, 9}, {0, 0}, {10, 0}}).Draw(t, "pattern")
			c.Crypt, c.Skip = pat[0], pat[1]
		}
	} else if rapid.IntRange(0, 3).Draw(t, "audioSubs") == 0 {
		// audio with a clear lead
		c.UseSubs = true
		for i := 0; i < n; i++ {
			l := len(cl.Samples[i].Raw)
			k := rapid.IntRange(0, 9).Draw(t, "audioLead")
			if k > l {
				k = l
			}
			c.Subs[i] = [][2]uint32{{uint32(k), uint32(l - k)}}
		}
	}
	if cl.Scheme == "cenc" {
		// per-sample IVs: start at the IV of the case, advance by the blocks used (16-byte IVs) or by one (8-byte IVs)
		iv := cl.IV16()
		if c.IVSize == 8 {
			copy(iv[8:], make([]byte, 8))
		}
		for i := 0; i < n; i++ {
			c.IVs = append(c.IVs, append([]byte(nil), iv[:c.IVSize]...))
			if c.IVSize == 8 {
				var x [16]byte
				copy(x[8:], iv[:8])
				x = refcrypto.Add128(x[:], 1)
				copy(iv, x[8:])
			} else {
				nb := uint64(len(cl.Samples[i].Bytes())+15) / 16
				x := refcrypto.Add128(iv, nb)
				copy(iv, x[:])
			}
		}
	}
	return c
}

func tpClasses(c *tpCase) []string {
	cl := []string{fmt.Sprintf("3p-%s/%s/iv%d", c.Clear.Codec, c.Clear.Scheme, c.IVSize)}
	add := func(b bool, s string) {
		if b {
			cl = append(cl, s)
		}
	}
	add(c.SencFirst, "3p-senc-before-saiz-saio")
	add(c.AuxType, "3p-aux-info-type-present")
	add(c.SaioV1, "3p-saio-version-1")
	add(c.Seig, "3p-seig-sample-group")
	add(c.SinfPos != 0, fmt.Sprintf("3p-sinf-is-child-%d-of-the-entry", c.SinfPos))
	if c.OverrideFrags != nil {
		all := true
		for _, o := range c.OverrideFrags {
			all = all && o
		}
		add(true, fmt.Sprintf("3p-seig-override-%s-iv%d", c.Clear.Scheme, c.OvIVSize))
		add(!all, "3p-seig-override-in-some-fragments-only")
	}
	add(!c.Clear.Video() && c.UseSubs, "3p-audio-with-clear-lead")
	add(c.Clear.Scheme == "cbcs" && c.Clear.Video() && c.Skip != 9, fmt.Sprintf("3p-cbcs-pattern-%d:%d", c.Crypt, c.Skip))
	zero, odd := false, false
	for _, s := range c.Subs {
		for k, p := range s {
			zero = zero || (p[1] == 0 && k+1 < len(s))
			odd = odd || p[1]%16 != 0
		}
	}
	add(zero, "3p-zero-protected-entry-inside-map")
	add(odd && c.Clear.Scheme == "cenc", "3p-cenc-range-not-multiple-of-16")
	add(len(c.Clear.Frags) >= 2, "3p->=2 fragments")
	return cl
}

func TestThirdParty(t *testing.T) {
	t.Run("generated", func(t *testing.T) {
		harness.RunRapid(t, "thirdparty", func(rt *rapid.T) {
			c := genThirdParty(rt)
			raw, _ := json.Marshal(c)
			harness.Rec.Case(cryptgen.ExpectProtected(&c.Clear), raw, tpClasses(&c)...)
			f := harness.Guarded(func() *harness.Fail { return checkThirdParty(c) })
			harness.Report(rt, "crypt3p", c, f)
		})
	})
	t.Run("repofiles", func(t *testing.T) {
		k := 0
		for _, rf0 := range repoFiles {
			for _, variant := range repoVariants {
				k++
				if k%harness.E.NShards != harness.E.Shard {
					continue
				}
				rf := rf0
				rf.Variant = variant
				var st repoStats
				f := harness.Guarded(func() *harness.Fail { return evalRepoFile(rf, &st) })
				if st.notApplicable {
					harness.Rec.CaseDistinct(false, "3p-repo-file-variant-not-applicable")
					continue
				}
				v := variant
				if v == "" {
					v = "as-is"
				}
				harness.Rec.CaseDistinct(st.protected > 0, "3p-repo-file", "3p-repo-file-"+rf.Scheme, "3p-repo-file-variant-"+v)
				harness.Rec.ClassN("3p-repo-file-samples", int64(st.samples))
				harness.ReportDirect(t, "crypt3pfile", rf, f)
			}
		}
		harness.Rec.Exhaustive("encrypted files of the repository test data (5) x meaning-preserving rewrites (as is, trex boxes reversed, pssh box inserted into every moof, both)")
	})
}

// ---------------------------------------------------------------------------------------------
// (ii) repository files

type repoFileCase struct {
	File   string `json:"file"` // relative to the repository
	Init   string `json:"init,omitempty"`
	Key    string `json:"key"`
	Scheme string `json:"scheme"` // cenc | cbcs | piff
	// Variant: a meaning-preserving rewrite applied to the file first (variants_test.go)
	Variant string `json:"variant,omitempty"`
}

// keys as documented in cmd/mp4ff-decrypt/main_test.go
var repoFiles = []repoFileCase{
	{File: "mp4/testdata/prog_8s_enc_dashinit.mp4", Key: "63cb5f7184dd4b689a5c5ff11ee6a328", Scheme: "cenc"},
	{File: "mp4/testdata/cbcs.mp4", Key: "22bdb0063805260307ee5045c0f3835a", Scheme: "cbcs"},
	{File: "mp4/testdata/cbcs_audio.mp4", Key: "5ffd93861fa776e96cccd934898fc1c8", Scheme: "cbcs"},
	{File: "cmd/mp4ff-decrypt/testdata/PIFF/audio/segment-1.0001.m4s", Init: "cmd/mp4ff-decrypt/testdata/PIFF/audio/init.mp4",
		Key: "602a9289bfb9b1995b75ac63f123fc86", Scheme: "piff"},
	{File: "cmd/mp4ff-decrypt/testdata/PIFF/video/complseg-1.0001.mp4", Key: "602a9289bfb9b1995b75ac63f123fc86", Scheme: "piff"},
}

type repoStats struct {
	samples, protected int
	notApplicable      bool
}

func unhex(s string) []byte {
	var h harness.HexBytes
	if err := h.UnmarshalJSON([]byte(`"` + s + `"`)); err != nil {
		panic(err)
	}
	return h
}

func checkRepoFile(c repoFileCase) *harness.Fail {
	var st repoStats
	return evalRepoFile(c, &st)
}

func evalRepoFile(c repoFileCase, st *repoStats) *harness.Fail {
	enc, err := os.ReadFile(filepath.Join(harness.E.RepoDir, c.File))
	if err != nil {
		return harness.Failf("harness|repo file", "%v", err)
	}
	if c.Variant != "" {
		var ok bool
		if enc, ok, err = applyVariant(enc, c.Variant); err != nil {
			return harness.Failf("harness|repo file variant", "%s: %v", c.Variant, err)
		} else if !ok {
			st.notApplicable = true
			return nil
		}
	}
	key := unhex(c.Key)
	var initBytes []byte
	var initParsed *fragbuild.Parsed
	if c.Init != "" {
		if initBytes, err = os.ReadFile(filepath.Join(harness.E.RepoDir, c.Init)); err != nil {
			return harness.Failf("harness|repo file", "%v", err)
		}
		if initParsed, err = fragbuild.Read(initBytes); err != nil {
			return harness.Failf("harness|repo file", "init: %v", err)
		}
	}
	pe, err := fragbuild.ReadWith(enc, initParsed)
	if err != nil {
		return harness.Failf("harness|repo file", "%s does not read: %v", c.File, err)
	}
	// the pipeline of cmd/mp4ff-decrypt
	inMp4, err := mp4.DecodeFile(bytes.NewReader(enc))
	if err != nil {
		return harness.Failf("C06|third-party file|DecodeFile error", "%v", err)
	}
	init := inMp4.Init
	if init == nil {
		if initBytes == nil {
			return harness.Failf("harness|repo file", "no init")
		}
		iSeg, err := mp4.DecodeFile(bytes.NewReader(initBytes))
		if err != nil {
			return harness.Failf("C06|third-party file|DecodeFile(init) error", "%v", err)
		}
		init = iSeg.Init
	}
	di, err := mp4.DecryptInit(init)
	if err != nil {
		return harness.Failf("C06|third-party file|DecryptInit error", "%v", err)
	}
	var out bytes.Buffer
	if inMp4.Init != nil {
		if err := inMp4.Init.Encode(&out); err != nil {
			return harness.Failf("C06|third-party file|Init.Encode error", "%v", err)
		}
	}
	for _, seg := range inMp4.Segments {
		if err := mp4.DecryptSegment(seg, di, key); err != nil {
			return harness.Failf("C06|third-party file|DecryptSegment error", "%v", err)
		}
		if err := seg.Encode(&out); err != nil {
			return harness.Failf("C06|third-party file|MediaSegment.Encode error", "%v", err)
		}
	}
	dec := out.Bytes()
	var decInit *fragbuild.Parsed
	if initParsed != nil {
		// the decrypted init segment is needed for the trex defaults only
		decInit = initParsed
	}
	pd, err := fragbuild.ReadWith(dec, decInit)
	if err != nil {
		return harness.Failf("C06|third-party file|output data offsets or sample tables do not resolve", "%v", err)
	}
	if len(pd.Moofs) != len(pe.Moofs) {
		return harness.Failf("C06|third-party file|fragment count differs", "%d vs %d", len(pd.Moofs), len(pe.Moofs))
	}
	// independent decryption from the file's own signalling
	type trackProt struct {
		p *cryptgen.Protection
	}
	prot := map[uint32]*cryptgen.Protection{}
	et, _ := boxwalk.WalkAll(enc)
	if c.Scheme != "piff" {
		for _, trak := range boxwalk.Find(et, "trak") {
			tk := boxwalk.Path(trak.Children, "tkhd")
			stsd := boxwalk.Path(trak.Children, "mdia", "minf", "stbl", "stsd")
			if tk == nil || stsd == nil || len(stsd.Children) == 0 {
				continue
			}
			pl := enc[tk.PayloadStart():tk.End()]
			id := uint32(pl[12])<<24 | uint32(pl[13])<<16 | uint32(pl[14])<<8 | uint32(pl[15])
			if pl[0] == 1 {
				id = uint32(pl[20])<<24 | uint32(pl[21])<<16 | uint32(pl[22])<<8 | uint32(pl[23])
			}
			p, err := cryptgen.ParseProtection(enc, stsd.Children[0])
			if err != nil {
				return harness.Failf("harness|repo file", "protection of track %d: %v", id, err)
			}
			if p != nil {
				prot[id] = p
			}
		}
	}
	moofBoxes := boxwalk.Find(et, "moof")
	for mi := range pe.Moofs {
		me, md := &pe.Moofs[mi], &pd.Moofs[mi]
		if len(me.Trafs) != len(md.Trafs) {
			return harness.Failf("C06|third-party file|traf count differs", "moof %d", mi)
		}
		for ti := range me.Trafs {
			te, td := &me.Trafs[ti], &md.Trafs[ti]
			se, sd := te.Samples(), td.Samples()
			if te.Tfhd.TrackID != td.Tfhd.TrackID || len(se) != len(sd) {
				return harness.Failf("C06|third-party file|sample count differs", "moof %d traf %d: %d vs %d", mi, ti, len(sd), len(se))
			}
			for i := range se {
				a, b := &se[i], &sd[i]
				st.samples++
				if a.Size != b.Size || a.Dur != b.Dur || a.Flags != b.Flags || a.Cto != b.Cto || a.DecodeTime != b.DecodeTime {
					return harness.Failf("C06|third-party file|size or timing of a sample changed by decryption",
						"moof %d traf %d sample %d: encrypted %+v decrypted %+v", mi, ti, i, meta(a), meta(b))
				}
			}
			p := prot[te.Tfhd.TrackID]
			if p == nil || p.Tenc == nil {
				if c.Scheme != "piff" {
					for i := range se {
						if !bytes.Equal(se[i].Data, sd[i].Data) {
							return harness.Failf("C06|third-party file|sample of an unprotected track changed", "moof %d traf %d sample %d", mi, ti, i)
						}
					}
				} else {
					for i := range se {
						if !bytes.Equal(se[i].Data, sd[i].Data) {
							st.protected++
						}
					}
				}
				continue
			}
			trafBox := boxwalk.Find(moofBoxes[mi].Children, "traf")[ti]
			sencBoxes := boxwalk.Find(trafBox.Children, "senc")
			if len(sencBoxes) != 1 {
				return harness.Failf("harness|repo file", "moof %d traf %d: %d senc boxes", mi, ti, len(sencBoxes))
			}
			senc, err := cryptgen.ParseSenc(enc, sencBoxes[0], int(p.Tenc.IVSize))
			if err != nil || senc.Count != len(se) {
				return harness.Failf("harness|repo file", "moof %d traf %d: senc: %v (count %d, samples %d)", mi, ti, err, senc.Count, len(se))
			}
			for i := range se {
				ranges := refcrypto.Whole(len(se[i].Data))
				if senc.Flags&2 != 0 {
					var total int
					ranges, total = refcrypto.RangesOf(senc.Samples[i].Subs)
					if total != len(se[i].Data) {
						return harness.Failf("harness|repo file", "moof %d traf %d sample %d: sub-sample map covers %d of %d bytes", mi, ti, i, total, len(se[i].Data))
					}
				}
				st.protected += refcrypto.ProtectedBytes(ranges)
				var want []byte
				if p.Scheme == "cenc" {
					iv := make([]byte, 16)
					copy(iv, senc.Samples[i].IV)
					want = refcrypto.CencCrypt(key, iv, se[i].Data, ranges)
				} else {
					iv := senc.Samples[i].IV
					if len(iv) == 0 {
						iv = p.Tenc.ConstIV
					}
					want = refcrypto.CbcsCrypt(key, iv, se[i].Data, ranges, int(p.Tenc.Crypt), int(p.Tenc.Skip), true)
				}
				if !bytes.Equal(sd[i].Data, want) {
					return harness.Failf("C06|third-party file|decrypted bytes differ from the reference cipher", "moof %d traf %d sample %d (%d bytes)", mi, ti, i, len(want))
				}
			}
		}
	}
	return nil
}

func meta(s *fragbuild.PSample) string {
	return fmt.Sprintf("{size %d dur %d flags %#x cto %d time %d}", s.Size, s.Dur, s.Flags, s.Cto, s.DecodeTime)
}
