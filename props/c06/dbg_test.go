package c06

import (
	"fmt"
	"os"
	"testing"

	"verif/internal/boxwalk"
)

func dump(bs []*boxwalk.Box, ind string, max int) {
	n := 0
	for _, b := range bs {
		n++
		if n > max {
			fmt.Printf("%s... (%d boxes)\n", ind, len(bs))
			break
		}
		fmt.Printf("%s%s %d@%d\n", ind, b.Type, b.Size, b.Start)
		dump(b.Children, ind+"  ", 50)
	}
}

func TestDbg(t *testing.T) {
	for _, f := range []string{"/repo/mp4/testdata/prog_8s_enc_dashinit.mp4", "/repo/mp4/testdata/cbcs.mp4", "/repo/mp4/testdata/cbcs_audio.mp4",
		"/repo/cmd/mp4ff-decrypt/testdata/PIFF/audio/init.mp4", "/repo/cmd/mp4ff-decrypt/testdata/PIFF/audio/segment-1.0001.m4s",
		"/repo/cmd/mp4ff-decrypt/testdata/PIFF/video/complseg-1.0001.mp4"} {
		d, err := os.ReadFile(f)
		fmt.Println("=====", f, len(d), err)
		bs, err := boxwalk.WalkAll(d)
		fmt.Println(err)
		dump(bs, "", 6)
	}
}
