package c06

// Meaning-preserving rewrites of the repository's encrypted files (metamorphic variants of leg (ii)): the
// decryptor must return the same samples for
//
//	trex-reversed   the trex boxes of mvex in reverse order (14496-12 does not tie their order to the trak order)
//	pssh-in-moof    a pssh box after the mfhd of every moof (key rotation signalling, 23001-7 8.1), with every
//	                offset that the insertion moves corrected (trun data_offset, saio offsets, moof size, the
//	                sidx reference that covers the fragment)
//
// The rewrites are done on the bytes with the independent box walker; the strict reader (fragbuild.ReadWith)
// re-validates the rewritten file before the library sees it.

import (
	"encoding/binary"
	"fmt"

	"verif/internal/boxwalk"
)

var repoVariants = []string{"", "trex-reversed", "pssh-in-moof", "trex-reversed+pssh-in-moof"}

var rotationPssh = boxwalk.Make("pssh", append(append([]byte{0, 0, 0, 0}, []byte("verif-key-rotate")...), 0, 0, 0, 0))

// applyVariant returns the rewritten file, or applicable=false when the file has nothing the rewrite could act on.
func applyVariant(enc []byte, variant string) (out []byte, applicable bool, err error) {
	out = append([]byte{}, enc...)
	if variant == "" {
		return out, true, nil
	}
	did := false
	if variant == "trex-reversed" || variant == "trex-reversed+pssh-in-moof" {
		tree, _ := boxwalk.WalkAll(out)
		for _, mvex := range boxwalk.Find(tree, "mvex") {
			var trex []*boxwalk.Box
			for _, k := range mvex.Children {
				if k.Type == "trex" {
					trex = append(trex, k)
				}
			}
			if len(trex) < 2 {
				continue
			}
			var bytesOf [][]byte
			for _, k := range trex {
				bytesOf = append(bytesOf, append([]byte{}, out[k.Start:k.End()]...))
			}
			for i, k := range trex {
				src := bytesOf[len(trex)-1-i]
				if len(src) != k.Size {
					return nil, false, fmt.Errorf("trex boxes of different sizes")
				}
				copy(out[k.Start:], src)
			}
			did = true
		}
	}
	if variant == "pssh-in-moof" || variant == "trex-reversed+pssh-in-moof" {
		tree, _ := boxwalk.WalkAll(out)
		if len(boxwalk.Find(tree, "mfra")) > 0 {
			return nil, false, nil
		}
		var moofs []*boxwalk.Box
		for _, b := range tree {
			if b.Type == "moof" {
				moofs = append(moofs, b)
			}
		}
		L := len(rotationPssh)
		for mi := len(moofs) - 1; mi >= 0; mi-- { // back to front: positions in front of the moof stay valid
			m := moofs[mi]
			var mfhd *boxwalk.Box
			for _, k := range m.Children {
				if k.Type == "mfhd" {
					mfhd = k
				}
			}
			if mfhd == nil || m.Large {
				return nil, false, nil
			}
			for _, traf := range m.Children {
				if traf.Type != "traf" {
					continue
				}
				for _, k := range traf.Children {
					p := k.PayloadStart()
					switch k.Type {
					case "tfhd":
						if out[p+3]&1 != 0 { // absolute base_data_offset: not handled
							return nil, false, nil
						}
					case "trun":
						if out[p+3]&1 != 0 {
							binary.BigEndian.PutUint32(out[p+8:], binary.BigEndian.Uint32(out[p+8:])+uint32(L))
						}
					case "saio":
						q := p + 4
						if out[p+3]&1 != 0 {
							q += 8
						}
						n := int(binary.BigEndian.Uint32(out[q:]))
						q += 4
						for i := 0; i < n; i++ {
							if out[p] == 0 {
								binary.BigEndian.PutUint32(out[q:], binary.BigEndian.Uint32(out[q:])+uint32(L))
								q += 4
							} else {
								binary.BigEndian.PutUint64(out[q:], binary.BigEndian.Uint64(out[q:])+uint64(L))
								q += 8
							}
						}
					}
				}
			}
			// sidx boxes in front of the moof: the reference that covers it grows
			for _, sx := range tree {
				if sx.Type != "sidx" || sx.Start > m.Start {
					continue
				}
				p := sx.PayloadStart()
				ver := out[p]
				q := p + 12
				var first uint64
				if ver == 0 {
					first = uint64(binary.BigEndian.Uint32(out[q+4:]))
					q += 8
				} else {
					first = binary.BigEndian.Uint64(out[q+8:])
					q += 16
				}
				n := int(binary.BigEndian.Uint16(out[q+2:]))
				q += 4
				at := uint64(sx.End()) + first
				for i := 0; i < n; i++ {
					sz := uint64(binary.BigEndian.Uint32(out[q:]) & 0x7fffffff)
					if uint64(m.Start) >= at && uint64(m.Start) < at+sz {
						binary.BigEndian.PutUint32(out[q:], binary.BigEndian.Uint32(out[q:])+uint32(L))
						break
					}
					at += sz
					q += 12
				}
			}
			binary.BigEndian.PutUint32(out[m.Start:], uint32(m.Size+L))
			at := mfhd.End()
			out = append(out[:at], append(append([]byte{}, rotationPssh...), out[at:]...)...)
			did = true
		}
	}
	return out, did, nil
}
