// C06 — decrypting what was encrypted restores the content.
//
// A clear single-track fragmented file (AVC, HEVC or AAC; written by fragbuild from a NAL-level model,
// see internal/cryptgen) is run through the library exactly as cmd/mp4ff-encrypt and cmd/mp4ff-decrypt do
// it: DecodeFile -> InitProtect -> EncryptFragment per fragment -> Encode -> DecodeFile -> DecryptInit ->
// Init.Encode, DecryptSegment + Encode per segment. The OUTPUT BYTES are then judged with fragbuild's
// independent reader and boxwalk against the clear model: samples (bytes, size, duration, flags,
// composition offset, decode time), sample entry, and every box of the clear input, in order and
// byte-identical (trun.data_offset / tfhd.base_data_offset are exempt from the byte comparison: they are
// judged by resolving them to the sample bytes).
package c06

import (
	"bytes"
	"encoding/json"
	"fmt"
	"os"
	"strings"
	"testing"

	"github.com/Eyevinn/mp4ff/mp4"
	"pgregory.net/rapid"

	"verif/internal/boxwalk"
	"verif/internal/cryptgen"
	"verif/internal/fragbuild"
	"verif/internal/harness"
)

func TestMain(m *testing.M) { harness.Main(m) }

func init() {
	harness.RegisterReplay("cryptrt", harness.Replayer(checkRoundTrip))
	harness.RegisterReplay("crypt3p", harness.Replayer(checkThirdParty))
	harness.RegisterReplay("crypt3pfile", harness.Replayer(checkRepoFile))
	// development aid: VERIF_C06_NOAVOID=all or a comma-separated list of switch names generates the
	// argument classes behind known defects as well
	if v := os.Getenv("VERIF_C06_NOAVOID"); v == "all" {
		avoidKnown = map[string]bool{}
	} else if v != "" {
		for _, name := range strings.Split(v, ",") {
			delete(avoidKnown, name)
		}
	}
}

func TestReplay(t *testing.T) { harness.ReplayPath(t) }

// avoidKnown lists the confirmed library defects whose triggering feature the GENERATOR leaves out (every
// avoided draw is counted with harness.Rec.Exclude(name)). Each name has a minimal reproducer
// /verif/replay/C06/kf-<name>.json that fails with the recorded key when replayed (replay never
// consults this map: a case is evaluated as it is written; the reproducers carry "noAvoid": true).
//
//	uuid-in-traf               TrafBox.RemoveEncryptionBoxes (mp4/traf.go) drops every uuid child of the traf that is
//	                           not a PIFF senc (tfxd, tfrf, vendor boxes): the *UUIDBox case has no else branch.
//	prft-before-moof           File.AddChild (mp4/file.go) attaches emsg, moof and mdat to the current fragment but
//	                           not prft; File.Encode in segment mode (the default, used by mp4ff-encrypt) writes
//	                           init + fragments only, so a prft in front of a moof is lost.
//	explicit-base-data-offset  tfhd.base_data_offset (absolute file position of the moof) is written back unchanged
//	                           although InitProtect grew the init segment (sinf, pssh): every trun then addresses
//	                           bytes in front of its mdat payload; DecryptSegment fails or decrypts the wrong bytes.
//	sidx                       DecryptSegment (mp4/crypto.go) drops the sidx boxes of a segment on purpose ("since not
//	                           modified properly": the moof boxes shrink, the referenced sizes would be stale), and
//	                           cmd/mp4ff-decrypt writes init + segments only, which loses a sidx behind moov: a box
//	                           that is not protection signalling is not kept. Repair = recomputing the references.
var avoidKnown = map[string]bool{
	cryptgen.FeatSidx:           true,
	cryptgen.FeatUUIDInTraf:     false, // repaired in /repo
	cryptgen.FeatPrftBeforeMoof: false, // repaired in /repo
	cryptgen.FeatExplicitBase:   true,
}

// ---------------------------------------------------------------------------------------------
// the pipeline of the two command line tools

func encryptLikeCLI(clear []byte, c *cryptgen.Case) ([]byte, *harness.Fail) {
	inFile, err := mp4.DecodeFile(bytes.NewReader(clear))
	if err != nil {
		return nil, harness.Failf("C06|DecodeFile(clear input)|error", "%v", err)
	}
	if inFile.Init == nil {
		return nil, harness.Failf("C06|DecodeFile(clear input)|no init segment", "")
	}
	psshBoxes, err := mp4.PsshBoxesFromBytes(c.Pssh)
	if err != nil {
		return nil, harness.Failf("C06|PsshBoxesFromBytes|error", "%v", err)
	}
	ipd, err := mp4.InitProtect(inFile.Init, c.Key, c.IV, c.Scheme, mp4.UUID(c.KID), psshBoxes)
	if err != nil {
		return nil, harness.Failf("C06|InitProtect|error on valid input", "%v", err)
	}
	for _, s := range inFile.Segments {
		for _, f := range s.Fragments {
			if err := mp4.EncryptFragment(f, c.Key, c.IV, ipd); err != nil {
				return nil, harness.Failf("C06|EncryptFragment|error on valid input", "%v", err)
			}
		}
	}
	var out bytes.Buffer
	if err := inFile.Encode(&out); err != nil {
		return nil, harness.Failf("C06|File.Encode(encrypted)|error", "%v", err)
	}
	return out.Bytes(), nil
}

// inMemorySamples reads the samples of the decrypted segments straight from the structures DecryptSegment left in
// memory (a player that decrypts and then reads, without an encode/decode in between) and compares their bytes with
// want (the clear sample data in order; nil = not compared).
func inMemorySamples(segs []*mp4.MediaSegment, di mp4.DecryptInfo, want [][]byte, who string) *harness.Fail {
	if want == nil {
		return nil
	}
	k := 0
	for si, seg := range segs {
		for fi, fr := range seg.Fragments {
			if fr.Moof == nil || fr.Moof.Traf == nil || fr.Moof.Traf.Tfhd == nil {
				continue
			}
			var trex *mp4.TrexBox
			for _, ti := range di.TrackInfos {
				if ti.TrackID == fr.Moof.Traf.Tfhd.TrackID {
					trex = ti.Trex
				}
			}
			fss, err := fr.GetFullSamples(trex)
			if err != nil {
				return harness.Failf("C06|"+who+"|samples of the decrypted fragment cannot be read in memory", "segment %d fragment %d: %v", si, fi, err)
			}
			for _, fs := range fss {
				if k >= len(want) {
					return harness.Failf("C06|"+who+"|more samples in memory after decryption than in the clear input", "segment %d fragment %d", si, fi)
				}
				if !bytes.Equal(fs.Data, want[k]) {
					return harness.Failf("C06|"+who+"|sample read in memory after decryption differs from the clear sample", "sample %d (segment %d fragment %d): %s, clear %s", k+1, si, fi, harness.HexTrunc(fs.Data, 24), harness.HexTrunc(want[k], 24))
				}
				k++
			}
		}
	}
	if k != len(want) {
		return harness.Failf("C06|"+who+"|fewer samples in memory after decryption than in the clear input", "%d of %d", k, len(want))
	}
	return nil
}

func decryptLikeCLI(enc []byte, key []byte) ([]byte, *harness.Fail) {
	return decryptLikeCLIWant(enc, key, nil)
}

func decryptLikeCLIWant(enc []byte, key []byte, want [][]byte) ([]byte, *harness.Fail) {
	inMp4, err := mp4.DecodeFile(bytes.NewReader(enc))
	if err != nil {
		return nil, harness.Failf("C06|DecodeFile(encrypted)|error", "%v", err)
	}
	if !inMp4.IsFragmented() || inMp4.Init == nil {
		return nil, harness.Failf("C06|DecodeFile(encrypted)|not recognised as fragmented file with init", "")
	}
	di, err := mp4.DecryptInit(inMp4.Init)
	if err != nil {
		return nil, harness.Failf("C06|DecryptInit|error", "%v", err)
	}
	var out bytes.Buffer
	if err := inMp4.Init.Encode(&out); err != nil {
		return nil, harness.Failf("C06|Init.Encode(decrypted)|error", "%v", err)
	}
	for _, seg := range inMp4.Segments {
		if err := mp4.DecryptSegment(seg, di, key); err != nil {
			return nil, harness.Failf("C06|DecryptSegment|error", "%v", err)
		}
		if err := seg.Encode(&out); err != nil {
			return nil, harness.Failf("C06|MediaSegment.Encode(decrypted)|error", "%v", err)
		}
	}
	if f := inMemorySamples(inMp4.Segments, di, want, "DecryptSegment"); f != nil {
		return nil, f
	}
	return out.Bytes(), nil
}

// ---------------------------------------------------------------------------------------------
// judging the output

type wantSample struct {
	data       []byte
	dur, flags uint32
	cto        int64
	time       uint64
}

func modelSamples(c *cryptgen.Case, data [][]byte) []wantSample {
	var out []wantSample
	tm := c.StartTime
	for i := range c.Samples {
		s := &c.Samples[i]
		out = append(out, wantSample{data: data[i], dur: s.Dur, flags: s.Flags, cto: int64(s.Cto), time: tm})
		tm += uint64(s.Dur)
	}
	return out
}

// compareSamples checks the samples fragbuild.Read resolved in the output against the model.
func compareSamples(tag string, p *fragbuild.Parsed, c *cryptgen.Case, data [][]byte) *harness.Fail {
	got := p.TrackSamples(c.TrackID)
	want := modelSamples(c, data)
	if len(got) != len(want) {
		return harness.Failf(tag+"|samples|count differs", "output has %d samples, the input %d", len(got), len(want))
	}
	// number of samples per fragment
	if len(p.Moofs) != len(c.Frags) {
		return harness.Failf(tag+"|fragments|count differs", "output has %d moof boxes, the input %d", len(p.Moofs), len(c.Frags))
	}
	for f := range p.Moofs {
		if n := len(p.Moofs[f].TrackSamples(c.TrackID)); n != c.Frags[f].N {
			return harness.Failf(tag+"|fragments|samples per fragment differ", "fragment %d: %d samples, input %d", f, n, c.Frags[f].N)
		}
	}
	for i := range want {
		g, w := &got[i], &want[i]
		cto := g.Cto
		if cto > 0x7fffffff { // trun version 0 stores the offset unsigned; the model is signed
			cto = int64(int32(uint32(cto)))
		}
		switch {
		case int(g.Size) != len(w.data):
			return harness.Failf(tag+"|samples|size differs", "sample %d: size %d, input %d", i, g.Size, len(w.data))
		case g.Dur != w.dur:
			return harness.Failf(tag+"|samples|duration differs", "sample %d: %d, input %d", i, g.Dur, w.dur)
		case g.Flags != w.flags:
			return harness.Failf(tag+"|samples|flags differ", "sample %d: %#x, input %#x", i, g.Flags, w.flags)
		case cto != w.cto:
			return harness.Failf(tag+"|samples|composition offset differs", "sample %d: %d, input %d", i, cto, w.cto)
		case g.DecodeTime != w.time:
			return harness.Failf(tag+"|samples|decode time differs", "sample %d: %d, input %d", i, g.DecodeTime, w.time)
		case !bytes.Equal(g.Data, w.data):
			k := 0
			for k < len(w.data) && g.Data[k] == w.data[k] {
				k++
			}
			return harness.Failf(tag+"|samples|bytes differ", "sample %d (%d bytes) differs from byte %d on: got %s want %s", i, len(w.data), k,
				harness.HexTrunc(g.Data[k:], 24), harness.HexTrunc(w.data[k:], 24))
		}
	}
	return nil
}

func withoutMdat(bs []*boxwalk.Box) []*boxwalk.Box {
	var out []*boxwalk.Box
	for _, b := range bs {
		if b.Type != "mdat" {
			out = append(out, b)
		}
	}
	return out
}

func judgeRoundTrip(c *cryptgen.Case, b *cryptgen.Built, out []byte) *harness.Fail {
	if bytes.Equal(out, b.File) {
		return nil // byte-identical to the clear input: nothing else to look at
	}
	// sample entry first (most specific)
	ot, werr := boxwalk.WalkAll(out)
	if werr != nil {
		return harness.Failf("C06|output|box structure broken", "%v", werr)
	}
	ct, _ := boxwalk.WalkAll(b.File)
	if e := cryptgen.EntryOf(ot); e == nil {
		return harness.Failf("C06|output|no sample entry", "")
	} else if e.Type != c.Codec {
		return harness.Failf("C06|DecryptInit|sample entry type not restored", "got %q want %q", e.Type, c.Codec)
	} else {
		for _, k := range e.Children {
			if k.Type == "sinf" {
				return harness.Failf("C06|DecryptInit|sinf left in the sample entry", "")
			}
		}
	}
	// every box of the clear input present, in order, unchanged (mdat is judged through the samples)
	if d := cryptgen.DiffBoxes(b.File, withoutMdat(ct), out, withoutMdat(ot), "", "", &cryptgen.DiffOpts{MaskOffsets: true}); d != nil {
		lbl := d.Type
		path := strings.TrimPrefix(d.Path, "/")
		if path == "" {
			path = "top level"
		}
		return harness.Failf(fmt.Sprintf("C06|%s|%s box %s", path, lbl, d.What), "%s", d.String())
	}
	p, err := fragbuild.Read(out)
	if err != nil {
		return harness.Failf("C06|output|data offsets or sample tables do not resolve", "%v", err)
	}
	if len(p.Tracks) != 1 || p.Tracks[0].ID != c.TrackID {
		return harness.Failf("C06|output|track list differs", "%d tracks", len(p.Tracks))
	}
	if f := compareSamples("C06", p, c, b.Data); f != nil {
		return f
	}
	// mdat boxes: same count and header form
	cm, om := boxwalk.Find(ct, "mdat"), boxwalk.Find(ot, "mdat")
	if len(cm) != len(om) {
		return harness.Failf("C06|mdat|count differs", "%d vs %d", len(om), len(cm))
	}
	for i := range cm {
		if cm[i].Size != om[i].Size || cm[i].HdrSize != om[i].HdrSize {
			return harness.Failf("C06|mdat|size or header form differs", "mdat %d: size %d hdr %d, input size %d hdr %d", i, om[i].Size, om[i].HdrSize, cm[i].Size, cm[i].HdrSize)
		}
	}
	return nil
}

// rtCase is a clear input plus the way init and media are handed to the library / the tools:
//
//	""          one file (init + segments) encrypted and decrypted as a whole
//	"splitdec"  encrypted as a whole; the encrypted init and the encrypted media are then decoded SEPARATELY
//	            (the senc boxes are parsed without a moov in sight) and decrypted with the init given aside
//	            (mp4ff-decrypt -init)
//	"inmem"     the decoded objects are encrypted and decrypted in place, without writing and re-reading them
//	"splitenc"  the init alone is protected first; the media alone is encrypted with the protection data
//	            extracted from the encrypted init (mp4ff-encrypt -init), then decrypted as in "splitdec"
type rtCase struct {
	cryptgen.Case
	Mode string `json:"mode,omitempty"`
}

// splitInit returns the length of the init part (everything in front of the first styp/sidx/emsg/prft/moof).
func splitInit(file []byte) int {
	tree, _ := boxwalk.WalkAll(file)
	for _, b := range tree {
		switch b.Type {
		case "styp", "sidx", "emsg", "prft", "moof":
			return b.Start
		}
	}
	return len(file)
}

// encryptSplitLikeCLI: mp4ff-encrypt on the init alone, then mp4ff-encrypt -init <encrypted init> on the media alone.
func encryptSplitLikeCLI(clearInit, clearMedia []byte, c *cryptgen.Case) ([]byte, []byte, *harness.Fail) {
	encInit, f := encryptLikeCLI(clearInit, c)
	if f != nil {
		return nil, nil, f
	}
	initFile, err := mp4.DecodeFile(bytes.NewReader(encInit))
	if err != nil || initFile.Init == nil {
		return nil, nil, harness.Failf("C06|DecodeFile(encrypted init)|error", "%v", err)
	}
	inFile, err := mp4.DecodeFile(bytes.NewReader(clearMedia))
	if err != nil {
		return nil, nil, harness.Failf("C06|DecodeFile(clear media alone)|error", "%v", err)
	}
	ipd, err := mp4.ExtractInitProtectData(initFile.Init)
	if err != nil {
		return nil, nil, harness.Failf("C06|ExtractInitProtectData|error", "%v", err)
	}
	for _, s := range inFile.Segments {
		for _, fr := range s.Fragments {
			if err := mp4.EncryptFragment(fr, c.Key, c.IV, ipd); err != nil {
				return nil, nil, harness.Failf("C06|EncryptFragment(media alone)|error on valid input", "%v", err)
			}
		}
	}
	var out bytes.Buffer
	if err := inFile.Encode(&out); err != nil {
		return nil, nil, harness.Failf("C06|File.Encode(encrypted media alone)|error", "%v", err)
	}
	return encInit, out.Bytes(), nil
}

// decryptSplitLikeCLI: mp4ff-decrypt -init <encrypted init> on the encrypted media alone. Returns the media only.
func decryptSplitLikeCLI(encInit, encMedia []byte, key []byte) ([]byte, *harness.Fail) {
	inMp4, err := mp4.DecodeFile(bytes.NewReader(encMedia))
	if err != nil {
		return nil, harness.Failf("C06|DecodeFile(encrypted media alone)|error", "%v", err)
	}
	if !inMp4.IsFragmented() || inMp4.Init != nil {
		return nil, harness.Failf("C06|DecodeFile(encrypted media alone)|not recognised as media without init", "")
	}
	iSeg, err := mp4.DecodeFile(bytes.NewReader(encInit))
	if err != nil || iSeg.Init == nil {
		return nil, harness.Failf("C06|DecodeFile(encrypted init)|error", "%v", err)
	}
	di, err := mp4.DecryptInit(iSeg.Init)
	if err != nil {
		return nil, harness.Failf("C06|DecryptInit|error", "%v", err)
	}
	var out bytes.Buffer
	for _, seg := range inMp4.Segments {
		if err := mp4.DecryptSegment(seg, di, key); err != nil {
			return nil, harness.Failf("C06|DecryptSegment(media alone)|error", "%v", err)
		}
		if err := seg.Encode(&out); err != nil {
			return nil, harness.Failf("C06|MediaSegment.Encode(decrypted)|error", "%v", err)
		}
	}
	return out.Bytes(), nil
}

// decryptInitAlone: mp4ff-decrypt cannot write an init given aside; the library calls are DecryptInit + Encode.
func decryptInitAlone(encInit []byte) ([]byte, *harness.Fail) {
	iSeg, err := mp4.DecodeFile(bytes.NewReader(encInit))
	if err != nil || iSeg.Init == nil {
		return nil, harness.Failf("C06|DecodeFile(encrypted init)|error", "%v", err)
	}
	if _, err := mp4.DecryptInit(iSeg.Init); err != nil {
		return nil, harness.Failf("C06|DecryptInit|error", "%v", err)
	}
	var out bytes.Buffer
	if err := iSeg.Init.Encode(&out); err != nil {
		return nil, harness.Failf("C06|Init.Encode(decrypted)|error", "%v", err)
	}
	return out.Bytes(), nil
}

// roundTripInMemory encrypts and decrypts the SAME decoded objects without writing and re-reading them in between
// (a packager that protects and a test player that unprotects in one process): InitProtect, EncryptFragment,
// DecryptInit, DecryptSegment, then one Encode.
func roundTripInMemory(clear []byte, c *cryptgen.Case, want [][]byte) ([]byte, *harness.Fail) {
	f, err := mp4.DecodeFile(bytes.NewReader(clear))
	if err != nil || f.Init == nil {
		return nil, harness.Failf("C06|DecodeFile(clear input)|error", "%v", err)
	}
	psshBoxes, err := mp4.PsshBoxesFromBytes(c.Pssh)
	if err != nil {
		return nil, harness.Failf("C06|PsshBoxesFromBytes|error", "%v", err)
	}
	ipd, err := mp4.InitProtect(f.Init, c.Key, c.IV, c.Scheme, mp4.UUID(c.KID), psshBoxes)
	if err != nil {
		return nil, harness.Failf("C06|InitProtect|error on valid input", "%v", err)
	}
	for _, s := range f.Segments {
		for _, fr := range s.Fragments {
			if err := mp4.EncryptFragment(fr, c.Key, c.IV, ipd); err != nil {
				return nil, harness.Failf("C06|EncryptFragment|error on valid input", "%v", err)
			}
		}
	}
	di, err := mp4.DecryptInit(f.Init)
	if err != nil {
		return nil, harness.Failf("C06|DecryptInit(in memory)|error", "%v", err)
	}
	for _, seg := range f.Segments {
		if err := mp4.DecryptSegment(seg, di, c.Key); err != nil {
			return nil, harness.Failf("C06|DecryptSegment(in memory)|error", "%v", err)
		}
	}
	if fail := inMemorySamples(f.Segments, di, want, "DecryptSegment(in memory)"); fail != nil {
		return nil, fail
	}
	var out bytes.Buffer
	if err := f.Encode(&out); err != nil {
		return nil, harness.Failf("C06|File.Encode(after in-memory round trip)|error", "%v", err)
	}
	return out.Bytes(), nil
}

// checkRoundTrip: a refusal to encrypt is a correct outcome when a sample needs more sub-sample entries than
// the 8-bit sample_info_size of saiz can describe (cryptgen.Case.SaizLimit); whatever IS written is judged.
func checkRoundTrip(rc rtCase) *harness.Fail {
	f := checkRoundTrip1(rc)
	if f != nil && rc.Case.SaizLimit() && strings.Contains(f.Key, "EncryptFragment") && strings.HasSuffix(f.Key, "|error on valid input") {
		harness.Rec.Class("refused: sub-sample table beyond the saiz size limit")
		return nil
	}
	return f
}

func checkRoundTrip1(rc rtCase) *harness.Fail {
	c := rc.Case
	b, err := c.Build()
	if err != nil {
		return harness.Failf("harness|cryptgen.Build", "%v", err)
	}
	if rc.Mode == "splitdec" || rc.Mode == "splitenc" {
		n := splitInit(b.File)
		var encInit, encMedia []byte
		if rc.Mode == "splitenc" {
			var f *harness.Fail
			if encInit, encMedia, f = encryptSplitLikeCLI(b.File[:n], b.File[n:], &c); f != nil {
				return f
			}
		} else {
			enc, f := encryptLikeCLI(b.File, &c)
			if f != nil {
				return f
			}
			k := splitInit(enc)
			encInit, encMedia = enc[:k], enc[k:]
		}
		if _, err := fragbuild.Read(append(append([]byte{}, encInit...), encMedia...)); err != nil {
			return harness.Failf("C06|encrypted intermediate|data offsets do not resolve to the sample data", "%v", err)
		}
		outMedia, f := decryptSplitLikeCLI(encInit, encMedia, c.Key)
		if f != nil {
			return f
		}
		outInit, f := decryptInitAlone(encInit)
		if f != nil {
			return f
		}
		return judgeRoundTrip(&c, b, append(outInit, outMedia...))
	}
	if rc.Mode == "inmem" {
		out, f := roundTripInMemory(b.File, &c, b.Data)
		if f != nil {
			return f
		}
		return judgeRoundTrip(&c, b, out)
	}
	enc, f := encryptLikeCLI(b.File, &c)
	if f != nil {
		return f
	}
	// the encrypted intermediate must at least address its own sample data (independent reader); otherwise
	// whatever the decryptor does with it has this as its root cause
	if _, err := fragbuild.Read(enc); err != nil {
		return harness.Failf("C06|encrypted intermediate|data offsets do not resolve to the sample data", "%v", err)
	}
	out, f := decryptLikeCLIWant(enc, c.Key, b.Data)
	if f != nil {
		return f
	}
	return judgeRoundTrip(&c, b, out)
}

func TestRoundTrip(t *testing.T) {
	harness.RunRapid(t, "roundtrip", func(rt *rapid.T) {
		c := rtCase{Case: cryptgen.Gen(rt, cryptgen.GenOpt{Avoid: avoidKnown})}
		c.Mode = rapid.SampledFrom([]string{"", "", "splitdec", "splitenc", "inmem"}).Draw(rt, "mode")
		raw, _ := json.Marshal(c)
		mode := c.Mode
		if mode == "" {
			mode = "whole"
		}
		harness.Rec.Case(cryptgen.ExpectProtected(&c.Case), raw, append(cryptgen.Classes(&c.Case), "mode-"+mode)...)
		if harness.Rec.WantSample() && len(raw) < 6000 && cryptgen.ExpectProtected(&c.Case) {
			harness.Rec.Sample(map[string]interface{}{"kind": "cryptrt", "case": c})
		}
		f := harness.Guarded(func() *harness.Fail { return checkRoundTrip(c) })
		harness.Report(rt, "cryptrt", c, f)
	})
}
