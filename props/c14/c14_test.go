// C14 — NAL unit framing conversions preserve the NAL unit sequence.
package c14

import (
	"bytes"
	"encoding/binary"
	"encoding/json"
	"fmt"
	"os"
	"reflect"
	"strconv"
	"strings"
	"testing"

	"github.com/Eyevinn/mp4ff/avc"
	"github.com/Eyevinn/mp4ff/hevc"
	"pgregory.net/rapid"

	"verif/internal/boxmut"
	"verif/internal/harness"
	"verif/internal/nalgen"
)

func TestMain(m *testing.M) { harness.Main(m) }

func init() {
	harness.RegisterReplay("nalstream", harness.Replayer(checkStream))
	// development aid: VERIF_C14_NOAVOID=all or a comma-separated list of switch names
	if v := os.Getenv("VERIF_C14_NOAVOID"); v == "all" {
		avoidKnown = map[string]bool{}
	} else if v != "" {
		for _, name := range strings.Split(v, ",") {
			delete(avoidKnown, name)
		}
	}
}

// avoidKnown lists library behaviours that contradict the property on the unchanged tree; the relations
// concerned are skipped (and counted with harness.Rec.Exclude(name)) so that the search continues behind
// them. A case carrying "noAvoid": true (the parked reproducers) is judged in full.
var avoidKnown = map[string]bool{
	// avc.IsVideoNaluType (and the literal "< 6" tests in avc/annexb.go) count nal_unit_type 0 as a video
	// NAL unit. H.264 Table 7-1: type 0 is "Unspecified", NAL unit type class non-VCL; the VCL types are
	// 1..5 (the function's own comment says "true if nalu type is a VCL nalu"). A type-0 NAL unit in front
	// of the parameter sets / the first slice therefore ends FindNaluTypesUpToFirstVideoNALU,
	// GetParameterSets, GetParameterSetsFromByteStream, ExtractNalusOfTypeFromByteStream(stopAtVideo) early
	// and is returned by GetFirstAVCVideoNALUFromByteStream.
	"avc-type0-counted-as-video": false, // repaired in /repo
}

func (c streamCase) avoid(name string) bool {
	if c.NoAvoid || !avoidKnown[name] {
		return false
	}
	harness.Rec.Exclude(name)
	return true
}

func TestReplay(t *testing.T) { harness.ReplayPath(t) }

type streamCase struct {
	Codec string             `json:"codec"` // "avc" | "hevc"
	Nalus []harness.HexBytes `json:"nalus"` // complete NAL units (header + escaped payload), non-empty, last byte != 0
	SC    []int              `json:"sc"`    // start code length (3|4) in front of each NAL unit
	// NoAvoid: judge the relations behind the avoidKnown switches as well (reproducers of known findings)
	NoAvoid bool `json:"noAvoid,omitempty"`
}

// unchanged: a helper that only reads must leave its argument as it was.
func unchanged(fn string, buf, pristine []byte) *harness.Fail {
	if bytes.Equal(buf, pristine) {
		return nil
	}
	i := 0
	for i < len(buf) && i < len(pristine) && buf[i] == pristine[i] {
		i++
	}
	return harness.Failf("C14|"+fn+"|input modified", "first difference at offset %d of %d: before %s", i, len(pristine), harness.HexTrunc(pristine, 200))
}

func (c streamCase) stream() []byte {
	var s []byte
	for i, n := range c.Nalus {
		if c.SC[i] == 4 {
			s = append(s, 0)
		}
		s = append(s, 0, 0, 1)
		s = append(s, n...)
	}
	return s
}

func (c streamCase) sample() []byte {
	var s []byte
	for _, n := range c.Nalus {
		s = binary.BigEndian.AppendUint32(s, uint32(len(n)))
		s = append(s, n...)
	}
	return s
}

type sc struct{ Len, Pos int }

// naiveScan finds every 00 00 01 byte by byte; a preceding 00 makes the start code 4 bytes long.
func naiveScan(s []byte) []sc {
	var out []sc
	for i := 0; i+2 < len(s); i++ {
		if s[i] == 0 && s[i+1] == 0 && s[i+2] == 1 {
			l := 3
			if i > 0 && s[i-1] == 0 {
				l = 4
			}
			out = append(out, sc{l, i + 3})
		}
	}
	return out
}

func eqNalus(got [][]byte, want []harness.HexBytes) bool {
	if len(got) != len(want) {
		return false
	}
	for i := range got {
		if !bytes.Equal(got[i], want[i]) {
			return false
		}
	}
	return true
}

func hexList(l [][]byte) string {
	s := "["
	for i, n := range l {
		if i > 0 {
			s += " "
		}
		s += harness.HexTrunc(n, 24)
	}
	return s + "]"
}

func hexListH(l []harness.HexBytes) string {
	var x [][]byte
	for _, n := range l {
		x = append(x, n)
	}
	return hexList(x)
}

func checkStream(c streamCase) *harness.Fail {
	stream := c.stream()
	sample := c.sample()
	pristine := append([]byte{}, stream...)
	pristineSample0 := append([]byte{}, sample...)
	// the generator's construction and the naive scan must agree (generator sanity: emulation-free input)
	var wantSC []sc
	pos := 0
	min := 4
	for i, n := range c.Nalus {
		pos += c.SC[i]
		wantSC = append(wantSC, sc{c.SC[i], pos})
		pos += len(n)
		if c.SC[i] < min {
			min = c.SC[i]
		}
	}
	if nv := naiveScan(stream); !reflect.DeepEqual(nv, wantSC) {
		return harness.Failf("harness|c14-generator|stream not emulation-free", "naive scan %v construction %v stream %x", nv, wantSC, stream)
	}
	// --- scanner (hook) vs byte-by-byte scan
	got, gmin := avc.VerifStartCodePositions(stream)
	var gsc []sc
	for _, g := range got {
		gsc = append(gsc, sc{g.Len, g.Pos})
	}
	if !reflect.DeepEqual(gsc, wantSC) {
		return harness.Failf("C14|avc.getStartCodePositions|differs from byte-by-byte scan", "stream(len %d) %s: scanner %v, naive %v", len(stream), harness.HexTrunc(stream, 200), gsc, wantSC)
	}
	if gmin != min {
		return harness.Failf("C14|avc.getStartCodePositions|min start code length", "got %d want %d", gmin, min)
	}
	// --- codec-agnostic conversions
	if g := avc.ExtractNalusFromByteStream(stream); !eqNalus(g, c.Nalus) {
		return harness.Failf("C14|avc.ExtractNalusFromByteStream|nalu list differs", "stream %s: got %s want %s", harness.HexTrunc(stream, 200), hexList(g), hexListH(c.Nalus))
	}
	if !bytes.Equal(stream, pristine) {
		return harness.Failf("C14|avc.ExtractNalusFromByteStream|input modified", "")
	}
	conv := avc.ConvertByteStreamToNaluSample(append([]byte{}, stream...))
	if !bytes.Equal(conv, sample) {
		return harness.Failf("C14|avc.ConvertByteStreamToNaluSample|sample differs", "stream %s (min sc %d): got %s want %s", harness.HexTrunc(stream, 200), min, harness.HexTrunc(conv, 200), harness.HexTrunc(sample, 200))
	}
	back := avc.ConvertSampleToByteStream(append([]byte{}, sample...))
	var want4 []byte
	for _, n := range c.Nalus {
		want4 = append(want4, 0, 0, 0, 1)
		want4 = append(want4, n...)
	}
	if !bytes.Equal(back, want4) {
		return harness.Failf("C14|avc.ConvertSampleToByteStream|stream differs", "got %s want %s", harness.HexTrunc(back, 200), harness.HexTrunc(want4, 200))
	}
	// --- length-field walkers
	nl, err := avc.GetNalusFromSample(sample)
	if err != nil || !eqNalus(nl, c.Nalus) {
		return harness.Failf("C14|avc.GetNalusFromSample|nalu list differs", "sample %s: got %s err %v", harness.HexTrunc(sample, 200), hexList(nl), err)
	}
	pristineSample := pristineSample0
	if f := unchanged("avc.GetNalusFromSample", sample, pristineSample); f != nil {
		return f
	}
	if c.Codec == "avc" {
		return checkAVC(c, stream, sample, pristine, pristineSample)
	}
	return checkHEVC(c, stream, sample, pristine, pristineSample)
}

// avcVCL: H.264 Table 7-1, column "Annex A NAL unit type class": nal_unit_type 1..5 are the VCL ("video")
// NAL units; 0 is unspecified and non-VCL like 6..31 (14, 20, 21 are VCL only for the Annex G/H/I
// extensions, which the library does not claim to interpret).
func avcVCL(t avc.NaluType) bool { return t >= 1 && t <= 5 }

func checkAVC(c streamCase, stream, sample, pristine, pristineSample []byte) *harness.Fail {
	var types []avc.NaluType
	firstVideo := -1
	type0First := false // a type-0 NAL unit in front of the first VCL NAL unit (or no VCL unit at all)
	for i, n := range c.Nalus {
		t := avc.NaluType(n[0] & 0x1f)
		types = append(types, t)
		if avcVCL(t) && firstVideo < 0 {
			firstVideo = i
		}
		if t == 0 && firstVideo < 0 {
			type0First = true
		}
	}
	// relations that depend on which NAL unit is the first video one
	judgeFirst := !(type0First && c.avoid("avc-type0-counted-as-video"))
	upTo := types
	if firstVideo >= 0 {
		upTo = types[:firstVideo+1]
	}
	if g := avc.FindNaluTypes(sample); !reflect.DeepEqual(g, types) {
		return harness.Failf("C14|avc.FindNaluTypes|type list differs", "got %v want %v", g, types)
	}
	if g := avc.FindNaluTypesUpToFirstVideoNALU(sample); judgeFirst && !eqTypes(g, upTo) {
		return harness.Failf("C14|avc.FindNaluTypesUpToFirstVideoNALU|type list differs", "got %v want %v", g, upTo)
	}
	if f := unchanged("avc.FindNaluTypes*", sample, pristineSample); f != nil {
		return f
	}
	var sps, pps [][]byte
	hasS, hasP := false, false
	for i, n := range c.Nalus {
		if firstVideo >= 0 && i >= firstVideo {
			break
		}
		switch types[i] {
		case 7:
			sps = append(sps, n)
			hasS = true
		case 8:
			pps = append(pps, n)
			hasP = true
		}
	}
	for t := 0; t < 32; t++ {
		want := false
		for _, x := range types {
			if int(x) == t {
				want = true
			}
		}
		if g := avc.ContainsNaluType(sample, avc.NaluType(t)); g != want {
			return harness.Failf("C14|avc.ContainsNaluType|differs", "type %d in %v: got %v", t, types, g)
		}
		var wantList [][]byte
		for i, n := range c.Nalus {
			if int(types[i]) == t {
				wantList = append(wantList, n)
			}
		}
		if g := avc.ExtractNalusOfTypeFromByteStream(avc.NaluType(t), stream, false); !eqList(g, wantList) {
			return harness.Failf("C14|avc.ExtractNalusOfTypeFromByteStream|nalu list differs", "type %d stopAtVideo=false types %v: got %s want %s", t, types, hexList(g), hexList(wantList))
		}
		if !avcVCL(avc.NaluType(t)) && judgeFirst {
			var wantBefore [][]byte
			for i, n := range c.Nalus {
				if firstVideo >= 0 && i >= firstVideo {
					break
				}
				if int(types[i]) == t {
					wantBefore = append(wantBefore, n)
				}
			}
			if g := avc.ExtractNalusOfTypeFromByteStream(avc.NaluType(t), stream, true); !eqList(g, wantBefore) {
				return harness.Failf("C14|avc.ExtractNalusOfTypeFromByteStream|nalu list differs (stopAtVideo)", "type %d types %v: got %s want %s", t, types, hexList(g), hexList(wantBefore))
			}
		}
	}
	if f := unchanged("avc.ExtractNalusOfTypeFromByteStream", stream, pristine); f != nil {
		return f
	}
	if f := unchanged("avc.ContainsNaluType", sample, pristineSample); f != nil {
		return f
	}
	wantIDR := false
	for _, x := range types {
		if x == 5 {
			wantIDR = true
		}
	}
	if g := avc.IsIDRSample(sample); g != wantIDR {
		return harness.Failf("C14|avc.IsIDRSample|differs", "types %v: got %v", types, g)
	}
	if g := avc.HasParameterSets(sample); judgeFirst && g != (hasS && hasP) {
		return harness.Failf("C14|avc.HasParameterSets|differs", "types %v: got %v", types, g)
	}
	gs, gp := avc.GetParameterSets(sample)
	if judgeFirst && (!eqList(gs, sps) || !eqList(gp, pps)) {
		return harness.Failf("C14|avc.GetParameterSets|parameter sets differ", "types %v: got sps %s pps %s want %s %s", types, hexList(gs), hexList(gp), hexList(sps), hexList(pps))
	}
	if f := unchanged("avc.IsIDRSample/HasParameterSets/GetParameterSets", sample, pristineSample); f != nil {
		return f
	}
	gs, gp = avc.GetParameterSetsFromByteStream(stream)
	if judgeFirst && (!eqList(gs, sps) || !eqList(gp, pps)) {
		key := "C14|avc.GetParameterSetsFromByteStream|parameter sets differ"
		if firstVideo < 0 {
			key = "C14|avc.GetParameterSetsFromByteStream|last parameter set dropped when no video NAL unit follows"
		}
		return harness.Failf(key, "types %v stream %s: got sps %s pps %s want %s %s", types, harness.HexTrunc(stream, 120), hexList(gs), hexList(gp), hexList(sps), hexList(pps))
	}
	if f := unchanged("avc.GetParameterSetsFromByteStream", stream, pristine); f != nil {
		return f
	}
	var wantFirst []byte
	if firstVideo >= 0 {
		wantFirst = c.Nalus[firstVideo]
	}
	if g := avc.GetFirstAVCVideoNALUFromByteStream(stream); judgeFirst && !bytes.Equal(g, wantFirst) {
		return harness.Failf("C14|avc.GetFirstAVCVideoNALUFromByteStream|differs", "types %v: got %s want %s", types, harness.HexTrunc(g, 40), harness.HexTrunc(wantFirst, 40))
	}
	if f := unchanged("avc.GetFirstAVCVideoNALUFromByteStream", stream, pristine); f != nil {
		return f
	}
	return nil
}

func eqTypes[T comparable](a, b []T) bool {
	if len(a) != len(b) {
		return false
	}
	for i := range a {
		if a[i] != b[i] {
			return false
		}
	}
	return true
}

func eqList(a, b [][]byte) bool {
	if len(a) != len(b) {
		return false
	}
	for i := range a {
		if !bytes.Equal(a[i], b[i]) {
			return false
		}
	}
	return true
}

// HEVC: H.265 Table 7-1: nal_unit_type 0..31 are VCL (incl. the reserved ranges 10..15, 22..31), 32..63
// non-VCL; IRAP ("RAP") pictures are 16..23 (BLA, IDR, CRA and RSV_IRAP_VCL22/23); IDR = 19, 20.
func checkHEVC(c streamCase, stream, sample, pristine, pristineSample []byte) *harness.Fail {
	var types []hevc.NaluType
	firstVideo := -1
	for i, n := range c.Nalus {
		t := hevc.NaluType((n[0] >> 1) & 0x3f)
		types = append(types, t)
		if t <= 31 && firstVideo < 0 {
			firstVideo = i
		}
	}
	upTo := types
	if firstVideo >= 0 {
		upTo = types[:firstVideo+1]
	}
	if g := hevc.FindNaluTypes(sample); !eqTypes(g, types) {
		return harness.Failf("C14|hevc.FindNaluTypes|type list differs", "got %v want %v", g, types)
	}
	if g := hevc.FindNaluTypesUpToFirstVideoNalu(sample); !eqTypes(g, upTo) {
		return harness.Failf("C14|hevc.FindNaluTypesUpToFirstVideoNalu|type list differs", "got %v want %v", g, upTo)
	}
	if f := unchanged("hevc.FindNaluTypes*", sample, pristineSample); f != nil {
		return f
	}
	var vps, sps, pps [][]byte
	for i, n := range c.Nalus {
		if firstVideo >= 0 && i >= firstVideo {
			break
		}
		switch types[i] {
		case 32:
			vps = append(vps, n)
		case 33:
			sps = append(sps, n)
		case 34:
			pps = append(pps, n)
		}
	}
	rap, idr := false, false
	for _, x := range types {
		if x >= 16 && x <= 23 {
			rap = true
		}
		if x == 19 || x == 20 {
			idr = true
		}
	}
	for t := 0; t < 64; t++ {
		want := false
		var wantList, wantBefore [][]byte
		for i, x := range types {
			if int(x) == t {
				want = true
				wantList = append(wantList, c.Nalus[i])
				if firstVideo < 0 || i < firstVideo {
					wantBefore = append(wantBefore, c.Nalus[i])
				}
			}
		}
		if g := hevc.ContainsNaluType(sample, hevc.NaluType(t)); g != want {
			return harness.Failf("C14|hevc.ContainsNaluType|differs", "type %d in %v: got %v", t, types, g)
		}
		if g := hevc.ExtractNalusOfTypeFromByteStream(hevc.NaluType(t), stream, false); !eqList(g, wantList) {
			return harness.Failf("C14|hevc.ExtractNalusOfTypeFromByteStream|nalu list differs", "type %d types %v: got %s want %s", t, types, hexList(g), hexList(wantList))
		}
		if t > 31 {
			if g := hevc.ExtractNalusOfTypeFromByteStream(hevc.NaluType(t), stream, true); !eqList(g, wantBefore) {
				return harness.Failf("C14|hevc.ExtractNalusOfTypeFromByteStream|nalu list differs (stopAtVideo)", "type %d types %v: got %s want %s", t, types, hexList(g), hexList(wantBefore))
			}
		}
	}
	if f := unchanged("hevc.ExtractNalusOfTypeFromByteStream", stream, pristine); f != nil {
		return f
	}
	if f := unchanged("hevc.ContainsNaluType", sample, pristineSample); f != nil {
		return f
	}
	if g := hevc.IsRAPSample(sample); g != rap {
		return harness.Failf("C14|hevc.IsRAPSample|differs", "types %v: got %v", types, g)
	}
	if g := hevc.IsIDRSample(sample); g != idr {
		return harness.Failf("C14|hevc.IsIDRSample|differs", "types %v: got %v", types, g)
	}
	if g := hevc.HasParameterSets(sample); g != (len(vps) > 0 && len(sps) > 0 && len(pps) > 0) {
		return harness.Failf("C14|hevc.HasParameterSets|differs", "types %v: got %v", types, g)
	}
	gv, gs, gp := hevc.GetParameterSets(sample)
	if !eqList(gv, vps) || !eqList(gs, sps) || !eqList(gp, pps) {
		return harness.Failf("C14|hevc.GetParameterSets|parameter sets differ", "types %v", types)
	}
	if f := unchanged("hevc.IsRAPSample/IsIDRSample/HasParameterSets/GetParameterSets", sample, pristineSample); f != nil {
		return f
	}
	gv, gs, gp = hevc.GetParameterSetsFromByteStream(stream)
	if !eqList(gv, vps) || !eqList(gs, sps) || !eqList(gp, pps) {
		key := "C14|hevc.GetParameterSetsFromByteStream|parameter sets differ"
		if firstVideo < 0 {
			key = "C14|hevc.GetParameterSetsFromByteStream|last parameter set dropped when no video NAL unit follows"
		}
		return harness.Failf(key, "types %v stream %s: got vps %s sps %s pps %s want %s %s %s", types, harness.HexTrunc(stream, 120), hexList(gv), hexList(gs), hexList(gp), hexList(vps), hexList(sps), hexList(pps))
	}
	if f := unchanged("hevc.GetParameterSetsFromByteStream", stream, pristine); f != nil {
		return f
	}
	return nil
}

// ---------------------------------------------------------------------------------------------
// generators

var avcTypes = []byte{1, 1, 5, 5, 6, 7, 7, 8, 8, 9, 10, 11, 12, 2, 3, 4, 13, 14, 19, 20, 23, 31}
var hevcTypes = []byte{0, 1, 1, 8, 9, 16, 19, 19, 20, 21, 22, 32, 32, 33, 33, 34, 34, 35, 36, 38, 39, 40, 41, 63}

// boundary values of the type tests in the library (video / RAP / IDR / parameter set thresholds)
var avcEdgeTypes = []byte{1, 2, 4, 5, 6, 7, 8, 9, 19, 20}
var hevcEdgeTypes = []byte{15, 16, 21, 22, 23, 24, 31, 32, 33, 34, 35, 39, 40}

func genNalu(t *rapid.T, codec string, sizeGen *rapid.Generator[int]) []byte {
	var hdr []byte
	if codec == "avc" {
		ty := rapid.OneOf(rapid.SampledFrom(avcTypes), rapid.SampledFrom(avcEdgeTypes),
			rapid.Map(rapid.IntRange(0, 31), func(i int) byte { return byte(i) })).Draw(t, "type")
		ref := rapid.IntRange(0, 3).Draw(t, "ref")
		hdr = []byte{byte(ref)<<5 | ty}
	} else {
		ty := rapid.OneOf(rapid.SampledFrom(hevcTypes), rapid.SampledFrom(hevcEdgeTypes),
			rapid.Map(rapid.IntRange(0, 63), func(i int) byte { return byte(i) })).Draw(t, "type")
		tid := rapid.IntRange(1, 7).Draw(t, "tid")
		layer := rapid.SampledFrom([]int{0, 0, 0, 1, 63}).Draw(t, "layer")
		hdr = []byte{ty<<1 | byte(layer>>5), byte(layer&31)<<3 | byte(tid)}
	}
	n := sizeGen.Draw(t, "size")
	if n < len(hdr) {
		n = len(hdr)
	}
	body := rapid.SliceOfN(rapid.OneOf(rapid.SampledFrom([]byte{0, 0, 0, 1, 2, 3, 0xff}), rapid.Byte()), n-len(hdr), n-len(hdr)).Draw(t, "body")
	nalu := nalgen.Escape(append(hdr, body...))
	if nalu[len(nalu)-1] == 0 {
		nalu = append(nalu, 0x80) // rbsp trailing bits: a NAL unit never ends in a zero byte
	}
	return nalu
}

func genStream(t *rapid.T) streamCase {
	c := streamCase{Codec: rapid.SampledFrom([]string{"avc", "hevc"}).Draw(t, "codec")}
	n := rapid.IntRange(1, 12).Draw(t, "n")
	big := harness.Pick(400, 70000)
	sizes := rapid.OneOf(rapid.IntRange(1, 12), rapid.IntRange(1, 80), rapid.IntRange(1, 80),
		rapid.SampledFrom([]int{1, 2, 3, 4, 5, 6, 7, 8, 9, 15, 16, 17, 23, 24, 25, 31, 32, 33, 63, 64, 65}),
		rapid.IntRange(80, big))
	allFour := rapid.IntRange(0, 3).Draw(t, "allfour") == 0
	for i := 0; i < n; i++ {
		c.Nalus = append(c.Nalus, genNalu(t, c.Codec, sizes))
		l := 4
		if !allFour {
			l = rapid.SampledFrom([]int{3, 4}).Draw(t, "sc")
		}
		c.SC = append(c.SC, l)
	}
	// one stream in 500: a NAL unit around and beyond 2^16 bytes (the length field has 32 bits); the bulk is a
	// filler without zero bytes behind a drawn head, the stream is kept short, and every other time all start codes
	// have 4 bytes (the in-place conversion)
	if boxmut.Uniform(t, "hugeNalu", hugeEvery) == 0 { // uniform: rapid's own integer draws hit 0 about once in twenty, whatever the range
		if len(c.Nalus) > 3 {
			c.Nalus, c.SC = c.Nalus[:3], c.SC[:3]
		}
		target := rapid.SampledFrom([]int{65535, 65536, 65537, 65540, 70000, 131077}).Draw(t, "hugeSize")
		i := rapid.IntRange(0, len(c.Nalus)-1).Draw(t, "hugeIndex")
		big := append([]byte(nil), c.Nalus[i]...)
		for k := 0; len(big) < target; k++ {
			big = append(big, byte(1+k%250))
		}
		c.Nalus[i] = big
		if rapid.Bool().Draw(t, "hugeAllFour") {
			for k := range c.SC {
				c.SC[k] = 4
			}
		}
	}
	return c
}

func classify(c streamCase) (nontrivial bool, classes []string) {
	stream := c.stream()
	straddle, tail := false, false
	pos := 0
	min := 4
	for i, n := range c.Nalus {
		start := pos
		pos += c.SC[i]
		if start/8 != (pos-1)/8 {
			straddle = true
		}
		if len(stream)-pos <= 10 {
			tail = true
		}
		pos += len(n)
		if c.SC[i] < min {
			min = c.SC[i]
		}
	}
	classes = append(classes, "codec-"+c.Codec)
	tc := map[string]bool{}
	for _, n := range c.Nalus {
		if c.Codec == "avc" {
			switch t := n[0] & 0x1f; {
			case t == 0:
				tc["avc-type-0(unspecified, non-VCL)"] = true
			case t >= 15 && t <= 18, t >= 21 && t <= 23:
				tc["avc-type-reserved-15..18/21..23"] = true
			case t >= 24:
				tc["avc-type-unspecified-24..31"] = true
			}
		} else {
			switch t := (n[0] >> 1) & 0x3f; {
			case t >= 10 && t <= 15:
				tc["hevc-type-reserved-vcl-10..15"] = true
			case t == 22 || t == 23:
				tc["hevc-type-reserved-irap-22..23"] = true
			case t >= 24 && t <= 31:
				tc["hevc-type-reserved-vcl-24..31"] = true
			case t >= 41:
				tc["hevc-type-nonvcl-41..63"] = true
			}
		}
	}
	for _, l := range []string{"avc-type-0(unspecified, non-VCL)", "avc-type-reserved-15..18/21..23", "avc-type-unspecified-24..31",
		"hevc-type-reserved-vcl-10..15", "hevc-type-reserved-irap-22..23", "hevc-type-reserved-vcl-24..31", "hevc-type-nonvcl-41..63"} {
		if tc[l] {
			classes = append(classes, l)
		}
	}
	if min == 4 {
		classes = append(classes, "all-4-byte-startcodes(in-place path)")
	} else {
		classes = append(classes, "has-3-byte-startcode(copy path)")
	}
	if straddle {
		classes = append(classes, "startcode-straddles-word")
	}
	if tail {
		classes = append(classes, "startcode-in-last-10-bytes")
	}
	if len(stream) > 4096 {
		classes = append(classes, "stream>4KiB")
	}
	return len(c.Nalus) >= 2 && (straddle || tail), classes
}

func TestStreams(t *testing.T) {
	harness.RunRapid(t, "streams", func(rt *rapid.T) {
		c := genStream(rt)
		raw, _ := json.Marshal(c)
		nt, cls := classify(c)
		harness.Rec.Case(nt, raw, cls...)
		if nt && harness.Rec.WantSample() && len(raw) < 600 {
			harness.Rec.Sample(map[string]interface{}{"kind": "nalstream", "case": c})
		}
		harness.Report(rt, "nalstream", c, harness.Guarded(func() *harness.Fail { return checkStream(c) }))
	})
}

// TestAlignmentSweep: every start-code offset modulo the machine word and every distance from the end.
func TestAlignmentSweep(t *testing.T) {
	fills := []func(i int) byte{
		func(i int) byte { return 0xaa },
		func(i int) byte { return []byte{0, 0, 3}[i%3] },
		func(i int) byte { return []byte{0, 0x41}[i%2] },
		func(i int) byte { return []byte{0x41, 0}[i%2] },
		func(i int) byte { return []byte{0, 0, 3, 1, 0, 0, 3, 0, 0, 3, 2}[i%11] },
	}
	mk := func(codec string, ty byte, n int, fill func(int) byte) []byte {
		var b []byte
		if codec == "avc" {
			b = []byte{0x60 | ty}
		} else {
			b = []byte{ty << 1, 1}
		}
		for i := 0; len(b) < n; i++ {
			b = append(b, fill(i))
		}
		b = nalgen.Escape(b)
		if b[len(b)-1] == 0 {
			b[len(b)-1] = 0x80
		}
		return b
	}
	maxA, maxB := harness.Pick(34, 70), harness.Pick(30, 40)
	idx := 0
	bad := 0
	for _, codec := range []string{"avc", "hevc"} {
		for fi, fill := range fills {
			for a := 1; a <= maxA; a++ {
				for b := 1; b <= maxB; b++ {
					for scm := 0; scm < 8; scm++ {
						idx++
						if idx%harness.E.NShards != harness.E.Shard || bad > 2 {
							continue
						}
						// third NAL unit: either side of the video / RAP thresholds
						t1, t2, t3 := byte(7), byte(8), []byte{5, 6}[(a+b+scm)%2]
						if codec == "hevc" {
							t1, t2, t3 = 33, 34, []byte{19, 23, 31, 32}[(a+b+scm)%4]
						}
						c := streamCase{Codec: codec,
							Nalus: []harness.HexBytes{mk(codec, t1, a, fill), mk(codec, t2, b, fill), mk(codec, t3, 1+(a+b)%5, fill)},
							SC:    []int{3 + scm&1, 3 + (scm>>1)&1, 3 + (scm>>2)&1}}
						if (a+b)%4 == 0 {
							c.Nalus = c.Nalus[:2] // stream that ends in a parameter set
							c.SC = c.SC[:2]
						}
						nt, cls := classify(c)
						if len(c.Nalus) == 3 {
							cls = append(cls, fmt.Sprintf("sweep-%s-third-type-%d", codec, t3))
						}
						harness.Rec.CaseDistinct(nt, append(cls, fmt.Sprintf("sweep-fill%d", fi))...)
						if f := harness.Guarded(func() *harness.Fail { return checkStream(c) }); f != nil {
							if harness.ReportDirect(t, "nalstream", c, f) {
								bad++
							}
						}
					}
				}
			}
		}
	}
	harness.Rec.Exhaustive(fmt.Sprintf("alignment sweep: 2 codecs x 5 fill patterns x first NAL length 1..%d x second NAL length 1..%d x all 8 start-code length combinations", maxA, maxB))
}

// hugeEvery: one stream in hugeEvery carries a NAL unit around 2^16 bytes (VERIF_C14_HUGE_EVERY overrides, for profiling).
var hugeEvery = func() int {
	if v, err := strconv.Atoi(os.Getenv("VERIF_C14_HUGE_EVERY")); err == nil && v > 0 {
		return v
	}
	return 500
}()
