// C18 — audio configuration codecs are exact over their whole domain (enumerated completely).
package c18

import (
	"bytes"
	"encoding/json"
	"fmt"
	"io"
	"os"
	"strings"
	"testing"

	"github.com/Eyevinn/mp4ff/aac"
	"github.com/Eyevinn/mp4ff/mp4"

	"verif/internal/harness"
)

func TestMain(m *testing.M) { harness.Main(m) }

func init() {
	harness.RegisterReplay("asc", harness.Replayer(checkASC))
	harness.RegisterReplay("adts", harness.Replayer(checkADTS))
	harness.RegisterReplay("adtsjunk", harness.Replayer(checkADTSJunk))
	harness.RegisterReplay("aacentry", harness.Replayer(checkAACEntry))
	harness.RegisterReplay("adtsvariant", harness.Replayer(checkADTSVariant))
	harness.RegisterReplay("aacentrybox", harness.Replayer(checkEntryBox))
	harness.RegisterReplay("aacentrymulti", harness.Replayer(checkAACEntryMulti))
	harness.RegisterReplay("adtsstream", harness.Replayer(checkADTSStream))
	harness.RegisterReplay("adtsreuse", harness.Replayer(checkADTSReuse))
	// development aid: VERIF_C18_NOAVOID=all or a comma-separated list of switch names
	if v := os.Getenv("VERIF_C18_NOAVOID"); v == "all" {
		avoidKnown = map[string]bool{}
	} else if v != "" {
		for _, name := range strings.Split(v, ",") {
			delete(avoidKnown, name)
		}
	}
}

// avoidKnown lists library behaviours that contradict the property on the unchanged tree; the relation
// concerned is skipped (and counted with harness.Rec.Exclude(name)) so that the enumeration continues
// behind it. A case carrying "noAvoid": true (the parked reproducers) is judged in full.
var avoidKnown = map[string]bool{
	// ADTSHeader.Frequency() returns uint16(FrequencyTable[idx]): 96000 (index 0) comes back as 30464 and
	// 88200 (index 1) as 22664; every other table frequency fits in 16 bits.
	"adts-frequency-uint16": true,
}

func avoid(noAvoid bool, name string) bool {
	if noAvoid || !avoidKnown[name] {
		return false
	}
	harness.Rec.Exclude(name)
	return true
}

func TestReplay(t *testing.T) { harness.ReplayPath(t) }

// ---------------------------------------------------------------------------------------------
// AudioSpecificConfig

type ascCase struct {
	ObjectType byte `json:"object_type"`
	Freq       int  `json:"freq"`
	ExtFreq    int  `json:"ext_freq"`
	Channels   byte `json:"channels"`
}

func (c ascCase) config() aac.AudioSpecificConfig {
	a := aac.AudioSpecificConfig{ObjectType: c.ObjectType, ChannelConfiguration: c.Channels, SamplingFrequency: c.Freq}
	switch c.ObjectType {
	case aac.HEAACv1:
		a.ExtensionFrequency = c.ExtFreq
		a.SBRPresentFlag = true
	case aac.HEAACv2:
		a.ExtensionFrequency = c.ExtFreq
		a.SBRPresentFlag = true
		a.PSPresentFlag = true
	}
	return a
}

var tableFreqs = []int{96000, 88200, 64000, 48000, 44100, 32000, 24000, 22050, 16000, 12000, 11025, 8000, 7350}

// refASC is an independent bit-level serialisation of ISO/IEC 14496-3 Table 1.15 for AOT 2/5/29.
func refASC(c ascCase) []byte {
	var acc uint64
	n := 0
	var out []byte
	put := func(v uint64, w int) {
		for i := w - 1; i >= 0; i-- {
			acc = acc<<1 | (v>>uint(i))&1
			n++
			if n == 8 {
				out = append(out, byte(acc))
				acc, n = 0, 0
			}
		}
	}
	putFreq := func(f int) {
		for i, tf := range tableFreqs {
			if tf == f {
				put(uint64(i), 4)
				return
			}
		}
		put(15, 4)
		put(uint64(f), 24)
	}
	put(uint64(c.ObjectType), 5)
	putFreq(c.Freq)
	put(uint64(c.Channels), 4)
	if c.ObjectType == 5 || c.ObjectType == 29 {
		putFreq(c.ExtFreq)
		put(2, 5)
	}
	put(0, 3)
	if n > 0 {
		out = append(out, byte(acc<<uint(8-n)))
	}
	return out
}

func checkASC(c ascCase) *harness.Fail {
	want := c.config()
	buf := bytes.Buffer{}
	if err := want.Encode(&buf); err != nil {
		return harness.Failf("C18|asc|encode-error", "Encode(%+v): %v", want, err)
	}
	if ref := refASC(c); !bytes.Equal(ref, buf.Bytes()) {
		return harness.Failf("C18|asc|bytes-differ-from-reference", "Encode(%+v) = %x, reference serialiser %x", want, buf.Bytes(), ref)
	}
	got, err := aac.DecodeAudioSpecificConfig(bytes.NewReader(buf.Bytes()))
	if err != nil {
		return harness.Failf("C18|asc|decode-error", "Decode(Encode(%+v)=%x): %v", want, buf.Bytes(), err)
	}
	if *got != want {
		return harness.Failf("C18|asc|roundtrip-mismatch", "Decode(Encode(%+v)=%x) = %+v", want, buf.Bytes(), *got)
	}
	return nil
}

func boundaryFreqs() []int {
	set := map[int]bool{}
	add := func(v int) {
		if v >= 0 && v < 1<<24 {
			set[v] = true
		}
	}
	for k := 0; k <= 24; k++ {
		add(1 << uint(k))
		add(1<<uint(k) - 1)
		add(1<<uint(k) + 1)
	}
	for _, f := range tableFreqs {
		add(f)
		add(f - 1)
		add(f + 1)
		add(2 * f)
		add(f / 2)
	}
	add(0)
	add(1<<24 - 1)
	// 256 further explicit frequencies spread over the 24-bit range by a fixed LCG (the thorough tier
	// enumerates all 2^24; this gives the quick tier values that are no neighbour of a power of two or of a
	// table frequency)
	lcg := uint32(0x2545f491)
	for i := 0; i < 256; i++ {
		lcg = lcg*1664525 + 1013904223
		add(int(lcg >> 8))
	}
	out := []int{}
	for v := 0; v < 1<<24; v++ {
		if set[v] {
			out = append(out, v)
		}
	}
	return out
}

func isTable(f int) bool {
	for _, t := range tableFreqs {
		if t == f {
			return true
		}
	}
	return false
}

// forEachBoundaryASC: boundary set x all 16 channel configurations x all three object types (x boundary ext freq)
func forEachBoundaryASC(fr []int, run func(ascCase)) {
	for _, f := range fr {
		for ch := 0; ch < 16; ch++ {
			run(ascCase{ObjectType: 2, Freq: f, Channels: byte(ch)})
		}
	}
	for _, ot := range []byte{5, 29} {
		for _, f := range fr {
			for _, ef := range fr {
				for ch := 0; ch < 16; ch++ {
					if !harness.Thorough() && ch%5 != int(ot)%5 && !(isTable(f) && isTable(ef)) {
						continue // quick: all channels only for table x table; one channel class otherwise
					}
					run(ascCase{ObjectType: ot, Freq: f, ExtFreq: ef, Channels: byte(ch)})
				}
			}
		}
	}
}

func TestASC(t *testing.T) {
	fr := boundaryFreqs()
	idx := 0
	bad := 0
	run := func(c ascCase) {
		idx++
		if idx%harness.E.NShards != harness.E.Shard || bad > 3 {
			return
		}
		cls := fmt.Sprintf("asc-aot%d", c.ObjectType)
		if isTable(c.Freq) {
			cls += "-tablefreq"
		} else {
			cls += "-explicitfreq"
		}
		harness.Rec.CaseDistinct(true, cls)
		if harness.Rec.WantSample() && idx%977 == 3 {
			harness.Rec.Sample(map[string]interface{}{"kind": "asc", "case": c, "bytes": fmt.Sprintf("%x", refASC(c))})
		}
		if harness.ReportDirect(t, "asc", c, harness.Guarded(func() *harness.Fail { return checkASC(c) })) {
			bad++
		}
	}
	forEachBoundaryASC(fr, run)
	harness.Rec.Exhaustive("ASC: {2,5,29} x boundary/table/256 LCG-spread frequencies (x ext) x 16 channel configurations")
	if harness.Thorough() {
		// every 24-bit explicit frequency
		for f := 0; f < 1<<24; f++ {
			run(ascCase{ObjectType: 2, Freq: f, Channels: byte(f % 16)})
			run(ascCase{ObjectType: 5, Freq: 48000, ExtFreq: f, Channels: byte((f >> 4) % 16)})
			run(ascCase{ObjectType: 29, Freq: f, ExtFreq: 96000, Channels: byte((f >> 8) % 16)})
		}
		harness.Rec.Exhaustive("ASC: all 2^24 explicit sampling / extension frequencies")
	}
}

// ---------------------------------------------------------------------------------------------
// ADTS

type adtsCase struct {
	ObjectType byte   `json:"object_type"`
	FreqIdx    byte   `json:"freq_idx"`
	Channels   byte   `json:"channels"`
	PayloadLen uint16 `json:"payload_len"`
	Fullness   uint16 `json:"fullness"`
	NoAvoid    bool   `json:"noAvoid,omitempty"`
}

// refADTS: ISO/IEC 13818-7 adts_fixed_header + adts_variable_header, MPEG-4 id, no CRC, one raw block.
func refADTS(c adtsCase) []byte {
	fl := uint32(c.PayloadLen) + 7
	b := make([]byte, 7)
	b[0] = 0xff
	b[1] = 0xf1
	b[2] = (c.ObjectType-1)<<6 | c.FreqIdx<<2 | c.Channels>>2
	b[3] = (c.Channels&3)<<6 | byte(fl>>11)
	b[4] = byte(fl >> 3)
	b[5] = byte(fl&7)<<5 | byte(c.Fullness>>6)
	b[6] = byte(c.Fullness&0x3f) << 2
	return b
}

func (c adtsCase) header() aac.ADTSHeader {
	return aac.ADTSHeader{ID: 0, ObjectType: c.ObjectType, SamplingFrequencyIndex: c.FreqIdx, ChannelConfig: c.Channels,
		HeaderLength: 7, PayloadLength: c.PayloadLen, BufferFullness: c.Fullness}
}

func checkADTS(c adtsCase) *harness.Fail {
	h := c.header()
	enc := h.Encode()
	if ref := refADTS(c); !bytes.Equal(enc, ref) {
		return harness.Failf("C18|adts|bytes-differ-from-reference", "Encode(%+v) = %x, reference %x", h, enc, ref)
	}
	got, off, err := aac.DecodeADTSHeader(bytes.NewReader(enc))
	if err != nil {
		return harness.Failf("C18|adts|decode-error", "Decode(Encode(%+v)=%x): %v", h, enc, err)
	}
	if off != 0 {
		return harness.Failf("C18|adts|offset", "Decode(Encode(%+v)) offset %d, want 0", h, off)
	}
	if *got != h {
		return harness.Failf("C18|adts|roundtrip-mismatch", "Decode(Encode(%+v)=%x) = %+v", h, enc, *got)
	}
	// "Frequency looks up the sampling frequency for index in ADTSHeader": ISO/IEC 13818-7 Table 35 /
	// 14496-3 Table 1.18 for the 13 defined indices
	if c.FreqIdx < 13 {
		want := tableFreqs[c.FreqIdx]
		if fq := int(got.Frequency()); fq != want && !(want > 0xffff && fq == want&0xffff && avoid(c.NoAvoid, "adts-frequency-uint16")) {
			return harness.Failf("C18|adts|frequency-lookup", "sampling_frequency_index %d: Frequency() = %d, table says %d", c.FreqIdx, fq, want)
		}
	}
	// the public constructor (AAC-LC, variable bit rate) builds the same header for every table frequency and
	// every payload length of the domain
	if c.ObjectType == aac.AAClc && c.Fullness == 0x7ff {
		for freq, idx := range aac.ReverseFrequencies {
			if idx != c.FreqIdx {
				continue
			}
			nh, err := aac.NewADTSHeader(freq, c.Channels, c.ObjectType, c.PayloadLen)
			if err != nil {
				return harness.Failf("C18|adts|constructor-error", "NewADTSHeader(%d, %d, %d, %d): %v", freq, c.Channels, c.ObjectType, c.PayloadLen, err)
			}
			if *nh != h {
				return harness.Failf("C18|adts|constructor-mismatch", "NewADTSHeader(%d, %d, %d, %d) = %+v, want %+v", freq, c.Channels, c.ObjectType, c.PayloadLen, *nh, h)
			}
		}
	}
	return nil
}

// adtsVariantCase: the reference header with another ID / protection_absent combination in byte 1
// (ISO/IEC 13818-7 6.2.1 adts_fixed_header: syncword 12 bits, ID 1 bit (1 = MPEG-2, 0 = MPEG-4), layer 2 bits
// '00', protection_absent 1 bit). With protection_absent = 0 adts_error_check() (crc_check, 16 bits) follows
// the variable header and aac_frame_length counts it: header length 9.
type adtsVariantCase struct {
	Hdr   adtsCase `json:"hdr"`
	Byte1 byte     `json:"byte1"` // 0xf0 MPEG-4 + CRC, 0xf8 MPEG-2 + CRC, 0xf9 MPEG-2 without CRC (0xf1 = the encoder's own form)
	CRC   uint16   `json:"crc"`   // crc_check value (not verified by the library; no payload is supplied)
}

func (c adtsVariantCase) bytes() ([]byte, bool) {
	b := refADTS(c.Hdr)
	b[1] = c.Byte1
	if c.Byte1&1 == 0 {
		fl := uint32(c.Hdr.PayloadLen) + 9
		if fl > 0x1fff {
			return nil, false // not representable in 13 bits
		}
		b[3] = b[3]&0xfc | byte(fl>>11)
		b[4] = byte(fl >> 3)
		b[5] = byte(fl&7)<<5 | b[5]&0x1f
		b = append(b, byte(c.CRC>>8), byte(c.CRC))
	}
	return b, true
}

func checkADTSVariant(c adtsVariantCase) *harness.Fail {
	b, ok := c.bytes()
	if !ok || c.Byte1&0xf6 != 0xf0 {
		return harness.Failf("harness|c18|bad-case", "%+v", c)
	}
	want, ok := refParse(b)
	wantLen := byte(7)
	if c.Byte1&1 == 0 {
		wantLen = 9
	}
	if !ok || want.HeaderLength != wantLen || want.PayloadLength != c.Hdr.PayloadLen || want.ID != (c.Byte1>>3)&1 ||
		want.ObjectType != c.Hdr.ObjectType || want.SamplingFrequencyIndex != c.Hdr.FreqIdx || want.ChannelConfig != c.Hdr.Channels || want.BufferFullness != c.Hdr.Fullness {
		return harness.Failf("harness|c18|reference parser disagrees with reference serialiser", "%x -> %+v for %+v", b, want, c)
	}
	got, off, err := aac.DecodeADTSHeader(bytes.NewReader(b))
	if err != nil {
		return harness.Failf("C18|adtsvariant|decode-error", "Decode(%x) (%+v): %v", b, c, err)
	}
	if off != 0 {
		return harness.Failf("C18|adtsvariant|offset", "Decode(%x) offset %d, want 0", b, off)
	}
	if *got != want {
		return harness.Failf("C18|adtsvariant|header", "Decode(%x) = %+v, reference parse %+v", b, *got, want)
	}
	// a stream that ends inside the CRC is not a complete header
	if c.Byte1&1 == 0 {
		if g, _, err := aac.DecodeADTSHeader(bytes.NewReader(b[:8])); err == nil {
			return harness.Failf("C18|adtsvariant|header cut inside crc_check accepted", "Decode(%x) = %+v", b[:8], *g)
		}
	}
	return nil
}

var adtsVariants = []struct {
	b1   byte
	name string
}{{0xf0, "adts-variant-mpeg4-crc"}, {0xf8, "adts-variant-mpeg2-crc"}, {0xf9, "adts-variant-mpeg2-nocrc"}}

func TestADTS(t *testing.T) {
	fulls := []uint16{0, 1, 0x3ff, 0x7ff}
	if harness.Thorough() {
		fulls = []uint16{0, 1, 2, 0x3f, 0x40, 0x7f, 0x155, 0x2aa, 0x3ff, 0x400, 0x7fe, 0x7ff}
	}
	idx := 0
	bad := 0
	var nvar [3]int64
	defer func() {
		for vi, v := range adtsVariants {
			harness.Rec.BulkDistinct(nvar[vi], nvar[vi], v.name)
		}
	}()
	for ot := byte(1); ot <= 4; ot++ {
		for fi := byte(0); fi < 16; fi++ {
			for ch := byte(0); ch < 8; ch++ {
				idx++
				if idx%harness.E.NShards != harness.E.Shard {
					continue
				}
				for pl := 0; pl <= 8184; pl++ {
					for _, fu := range fulls {
						if !harness.Thorough() && fu != 0x7ff && pl%64 != int(fu)%64 {
							continue
						}
						c := adtsCase{ObjectType: ot, FreqIdx: fi, Channels: ch, PayloadLen: uint16(pl), Fullness: fu}
						if f := checkADTS(c); f != nil {
							if harness.ReportDirect(t, "adts", c, f) {
								bad++
							}
						}
						if bad > 3 {
							return
						}
					}
					if pl%64 == 0 {
						// CRC-protected and MPEG-2 forms of the same header
						for vi, v := range adtsVariants {
							vc := adtsVariantCase{Hdr: adtsCase{ObjectType: ot, FreqIdx: fi, Channels: ch, PayloadLen: uint16(pl), Fullness: fulls[(pl/64+vi)%len(fulls)]},
								Byte1: v.b1, CRC: []uint16{0, 0xffff, 0xfff1, 0x1234}[(pl/64)%4]}
							nvar[vi]++
							if f := harness.Guarded(func() *harness.Fail { return checkADTSVariant(vc) }); f != nil {
								if harness.ReportDirect(t, "adtsvariant", vc, f) {
									bad++
								}
							}
						}
					}
				}
				n := int64(8185 * len(fulls))
				if !harness.Thorough() {
					n = 8185 + 3*8185/64
				}
				harness.Rec.BulkDistinct(n, n, fmt.Sprintf("adts-objtype%d", ot))
				if harness.Rec.WantSample() {
					c := adtsCase{ObjectType: ot, FreqIdx: fi, Channels: ch, PayloadLen: 8184, Fullness: 0x7ff}
					harness.Rec.Sample(map[string]interface{}{"kind": "adts", "case": c, "bytes": fmt.Sprintf("%x", refADTS(c))})
				}
			}
		}
	}
	if harness.Thorough() {
		harness.Rec.Exhaustive("ADTS: 4 object types x 16 frequency indices x 8 channel configs x payload 0..8184 x 12 fullness values")
	} else {
		harness.Rec.Exhaustive("ADTS: 4 object types x 16 frequency indices x 8 channel configs x payload 0..8184 (fullness 0x7ff)")
	}
}

// junk prefix
type junkCase struct {
	Hdr   adtsCase `json:"hdr"`
	Junk  []byte   `json:"junk"`
	Extra int      `json:"extra"` // payload bytes after the header (zeros)
}

func naiveSync(b []byte) int {
	for i := 0; i+1 < len(b); i++ {
		if b[i] == 0xff && b[i+1]&0xf0 == 0xf0 && (b[i+1]>>1)&3 == 0 {
			return i
		}
	}
	return -1
}

// refParse parses an ADTS header at b[0:] independently of the library. ok=false if too short or
// more than one raw block.
func refParse(b []byte) (h aac.ADTSHeader, ok bool) {
	if len(b) < 7 {
		return h, false
	}
	h.ID = (b[1] >> 3) & 1
	h.HeaderLength = 7
	if b[1]&1 == 0 {
		h.HeaderLength = 9
	}
	if len(b) < int(h.HeaderLength) {
		return h, false
	}
	h.ObjectType = b[2]>>6 + 1
	h.SamplingFrequencyIndex = (b[2] >> 2) & 15
	h.ChannelConfig = (b[2]&1)<<2 | b[3]>>6
	fl := uint16(b[3]&3)<<11 | uint16(b[4])<<3 | uint16(b[5])>>5
	h.PayloadLength = fl - uint16(h.HeaderLength)
	h.BufferFullness = uint16(b[5]&0x1f)<<6 | uint16(b[6])>>2
	if b[6]&3 != 0 {
		return h, false
	}
	return h, true
}

func checkADTSJunk(c junkCase) *harness.Fail {
	stream := append(append([]byte{}, c.Junk...), refADTS(c.Hdr)...)
	stream = append(stream, make([]byte, c.Extra)...)
	want := naiveSync(stream)
	got, off, err := aac.DecodeADTSHeader(bytes.NewReader(stream))
	if want < 0 || want >= 188 {
		return nil // outside the documented search window; no claim
	}
	wh, ok := refParse(stream[want:])
	if !ok {
		if err == nil && off != want {
			return harness.Failf("C18|adtsjunk|offset", "junk %x: offset %d, naive scan %d", c.Junk, off, want)
		}
		return nil // accidental sync inside junk with an unparsable header: error is fine
	}
	if err != nil {
		return harness.Failf("C18|adtsjunk|decode-error", "junk %x + header: %v (sync at %d)", c.Junk, err, want)
	}
	if off != want {
		return harness.Failf("C18|adtsjunk|offset", "junk %x (len %d): offset %d, naive scan finds sync at %d", c.Junk, len(c.Junk), off, want)
	}
	if *got != wh {
		return harness.Failf("C18|adtsjunk|header", "junk len %d: header %+v, reference parse at %d gives %+v", len(c.Junk), *got, want, wh)
	}
	return nil
}

// reuseCase: one ADTSHeader object: Encode, public fields replaced by those of B, Encode again.
type reuseCase struct {
	A adtsCase `json:"a"`
	B adtsCase `json:"b"`
}

func libADTS(c adtsCase) (*aac.ADTSHeader, *harness.Fail) {
	h, _, err := aac.DecodeADTSHeader(bytes.NewReader(refADTS(c)))
	if err != nil {
		return nil, harness.Failf("C18|adts|decode-error", "%+v: %v", c, err)
	}
	return h, nil
}

func checkADTSReuse(c reuseCase) *harness.Fail {
	h, f := libADTS(c.A)
	if f != nil {
		return f
	}
	nb, f := libADTS(c.B)
	if f != nil {
		return f
	}
	first := h.Encode()
	if !bytes.Equal(first, refADTS(c.A)) {
		return harness.Failf("C18|adts|encode-mismatch", "first encoding %x, reference %x", first, refADTS(c.A))
	}
	harness.AssignExported(h, nb)
	if got, want := h.Encode(), refADTS(c.B); !bytes.Equal(got, want) {
		return harness.Failf("C18|adtsreuse|header object encoded, fields changed, encoded again: not the encoding of the new values", "after %+v: fields %+v encode to %x, reference %x", c.A, c.B, got, want)
	}
	// and the AudioSpecificConfig of the two frequencies / channel configurations likewise
	ca := ascCase{ObjectType: 2, Freq: tableFreqs[int(c.A.FreqIdx)%len(tableFreqs)], Channels: c.A.Channels}
	cb := ascCase{ObjectType: 2, Freq: tableFreqs[int(c.B.FreqIdx)%len(tableFreqs)], Channels: c.B.Channels}
	a, b := ca.config(), cb.config()
	var w1, w2 bytes.Buffer
	if err := a.Encode(&w1); err != nil {
		return harness.Failf("C18|asc|encode-error", "%+v: %v", ca, err)
	}
	harness.AssignExported(&a, &b)
	if err := a.Encode(&w2); err != nil {
		return harness.Failf("C18|asc|encode-error", "%+v: %v", cb, err)
	}
	if !bytes.Equal(w2.Bytes(), refASC(cb)) {
		return harness.Failf("C18|ascreuse|config object encoded, fields changed, encoded again: not the encoding of the new values", "after %+v: %+v encodes to %x, reference %x", ca, cb, w2.Bytes(), refASC(cb))
	}
	return nil
}

// streamCase: ADTS frames (header + payload of the announced length) behind each other, read with one reader.
type streamCase struct {
	Frames []adtsCase `json:"frames"`
	Junk   int        `json:"junk"` // bytes (0x11) in front of the first frame
}

func checkADTSStream(c streamCase) *harness.Fail {
	var stream []byte
	for i := 0; i < c.Junk; i++ {
		stream = append(stream, 0x11)
	}
	var payloads [][]byte
	for fi, f := range c.Frames {
		stream = append(stream, refADTS(f)...)
		p := make([]byte, f.PayloadLen)
		for i := range p {
			p[i] = byte(1 + (i*7+fi*31)%0xfd) // never ff: no accidental sync pattern inside a payload
		}
		payloads = append(payloads, p)
		stream = append(stream, p...)
	}
	r := bytes.NewReader(stream)
	for fi, f := range c.Frames {
		h, off, err := aac.DecodeADTSHeader(r)
		if err != nil {
			return harness.Failf("C18|adtsstream|decode-error", "frame %d of %d on one reader: %v", fi, len(c.Frames), err)
		}
		wantOff := 0
		if fi == 0 {
			wantOff = c.Junk
		}
		if off != wantOff {
			return harness.Failf("C18|adtsstream|offset", "frame %d of %d on one reader: sync word reported at offset %d, expected %d (the reader stood right behind the payload of the previous frame)", fi, len(c.Frames), off, wantOff)
		}
		wh, ok := refParse(refADTS(f))
		if !ok || *h != wh {
			return harness.Failf("C18|adtsstream|header", "frame %d: header %+v, written %+v", fi, *h, wh)
		}
		got := make([]byte, h.PayloadLength)
		if _, err := io.ReadFull(r, got); err != nil {
			return harness.Failf("C18|adtsstream|payload", "frame %d: reading the %d payload bytes behind the header from the same reader: %v", fi, h.PayloadLength, err)
		}
		if !bytes.Equal(got, payloads[fi]) {
			return harness.Failf("C18|adtsstream|payload", "frame %d: the %d bytes behind the decoded header are not the payload that was written (the reader is not positioned right behind the header): got %s, want %s", fi, len(got), harness.HexTrunc(got, 16), harness.HexTrunc(payloads[fi], 16))
		}
	}
	return nil
}

func TestADTSJunk(t *testing.T) {
	// reduced header set x every junk length 0..187 x fill patterns
	hdrs := []adtsCase{{2, 3, 2, 0, 0x7ff, false}, {2, 4, 1, 371, 0x7ff, false}, {1, 0, 7, 8184, 0, false}, {4, 15, 0, 1, 0x3ff, false}, {3, 11, 6, 4095, 1, false}}
	type fill struct {
		name string
		f    func(i, n int) byte
	}
	lcg := uint32(12345)
	fills := []fill{
		{"zeros", func(i, n int) byte { return 0 }},
		{"fe", func(i, n int) byte { return 0xfe }},
		{"ff-run-then-00", func(i, n int) byte {
			if i < n-1 {
				return 0xff
			}
			return 0
		}},
		{"all-ff", func(i, n int) byte { return 0xff }},
		{"ff-every-other", func(i, n int) byte {
			if i%2 == 0 {
				return 0xff
			}
			return 0x0f
		}},
		{"ff-every-third", func(i, n int) byte {
			if i%3 == 0 {
				return 0xff
			}
			return 0xe0
		}},
		{"ff-f7 pairs (layer!=0)", func(i, n int) byte {
			if i%2 == 0 {
				return 0xff
			}
			return 0xf7
		}},
		{"pseudo-random", func(i, n int) byte { lcg = lcg*1664525 + 1013904223; return byte(lcg >> 24) }},
		{"pseudo-random-ffheavy", func(i, n int) byte {
			lcg = lcg*1664525 + 1013904223
			if (lcg>>20)&3 == 0 {
				return 0xff
			}
			return byte(lcg >> 24)
		}},
		{"trailing-ff", func(i, n int) byte {
			if i == n-1 {
				return 0xff
			}
			return 0x11
		}},
		{"trailing-ff-ff", func(i, n int) byte {
			if i >= n-2 {
				return 0xff
			}
			return 0x11
		}},
		{"trailing-ff-ff-ff", func(i, n int) byte {
			if i >= n-3 {
				return 0xff
			}
			return 0x11
		}},
	}
	reps := harness.Pick(3, 40)
	idx := 0
	for hi, h := range hdrs {
		for n := 0; n <= 187; n++ {
			for _, fl := range fills {
				r := 1
				if strings.HasPrefix(fl.name, "pseudo") {
					r = reps
				}
				for k := 0; k < r; k++ {
					junk := make([]byte, n)
					for i := range junk {
						junk[i] = fl.f(i, n)
					}
					idx++
					if idx%harness.E.NShards != harness.E.Shard {
						continue
					}
					c := junkCase{Hdr: h, Junk: junk, Extra: 4}
					raw, _ := json.Marshal(c)
					harness.Rec.Case(n > 0, raw, "junk-"+fl.name)
					if harness.Rec.WantSample() && n == 5+hi && fl.name == "ff-run-then-00" {
						harness.Rec.Sample(map[string]interface{}{"kind": "adtsjunk", "case": c})
					}
					harness.ReportDirect(t, "adtsjunk", c, harness.Guarded(func() *harness.Fail { return checkADTSJunk(c) }))
				}
			}
		}
	}
	harness.Rec.Exhaustive("ADTS junk: 5 headers x junk length 0..187 x 12 fill patterns")
	// frames in sequence on ONE reader (what a demultiplexer does): header, payload, header, payload, ...; every
	// header is found at offset 0 and the payload bytes are the ones that were written
	var ns int64
	for a := range hdrs {
		for b := range hdrs {
			for _, junk := range []int{0, 1, 9} {
				idx++
				if idx%harness.E.NShards != harness.E.Shard {
					continue
				}
				c := streamCase{Frames: []adtsCase{hdrs[a], hdrs[b], hdrs[(a+b+1)%len(hdrs)]}, Junk: junk}
				ns++
				if harness.Rec.WantSample() && a == 1 && b == 2 && junk == 0 {
					harness.Rec.Sample(map[string]interface{}{"kind": "adtsstream", "case": c})
				}
				harness.ReportDirect(t, "adtsstream", c, harness.Guarded(func() *harness.Fail { return checkADTSStream(c) }))
			}
		}
	}
	harness.Rec.BulkDistinct(ns, ns, "adts-frames-in-sequence-on-one-reader")
	// one header object encoded, its public fields changed, encoded again: the second encoding is that of the new
	// values (every ordered pair of the reduced header set)
	var nr int64
	for a := range hdrs {
		for b := range hdrs {
			idx++
			if idx%harness.E.NShards != harness.E.Shard {
				continue
			}
			c := reuseCase{A: hdrs[a], B: hdrs[b]}
			nr++
			harness.ReportDirect(t, "adtsreuse", c, harness.Guarded(func() *harness.Fail { return checkADTSReuse(c) }))
		}
	}
	harness.Rec.BulkDistinct(nr, nr, "adts-header-object-encoded-changed-encoded-again")
	harness.Rec.Exhaustive("ADTS frames in sequence: every ordered pair of 5 headers (+ a third) x leading junk {0,1,9}")
}

// ---------------------------------------------------------------------------------------------
// AAC sample entry

type entryCase struct {
	ObjectType byte `json:"object_type"`
	Freq       int  `json:"freq"`
}

func checkAACEntry(c entryCase) *harness.Fail {
	init := mp4.CreateEmptyInit()
	init.AddEmptyTrack(uint32(c.Freq), "audio", "und")
	trak := init.Moov.Trak
	if err := trak.SetAACDescriptor(c.ObjectType, c.Freq); err != nil {
		return harness.Failf("C18|aacentry|set-error", "SetAACDescriptor(%d,%d): %v", c.ObjectType, c.Freq, err)
	}
	buf := bytes.Buffer{}
	if err := init.Encode(&buf); err != nil {
		return harness.Failf("C18|aacentry|encode-error", "%v", err)
	}
	f, err := mp4.DecodeFile(bytes.NewReader(buf.Bytes()))
	if err != nil {
		return harness.Failf("C18|aacentry|decode-error", "%v", err)
	}
	if f.Init == nil || f.Init.Moov == nil || f.Init.Moov.Trak == nil {
		return harness.Failf("C18|aacentry|no-init", "decoded file has no init/trak")
	}
	stsd := f.Init.Moov.Trak.Mdia.Minf.Stbl.Stsd
	if stsd.Mp4a == nil || stsd.Mp4a.Esds == nil {
		return harness.Failf("C18|aacentry|no-mp4a-esds", "no mp4a/esds in decoded init")
	}
	dsi := stsd.Mp4a.Esds.DecConfigDescriptor.DecSpecificInfo
	if dsi == nil {
		return harness.Failf("C18|aacentry|no-decspecificinfo", "no DecSpecificInfo")
	}
	got, err := aac.DecodeAudioSpecificConfig(bytes.NewReader(dsi.DecConfig))
	if err != nil {
		return harness.Failf("C18|aacentry|asc-decode-error", "%x: %v", dsi.DecConfig, err)
	}
	want := ascCase{ObjectType: c.ObjectType, Freq: c.Freq, Channels: 2}
	if c.ObjectType != 2 {
		want.ExtFreq = 2 * c.Freq
	}
	if c.ObjectType == 29 {
		want.Channels = 1
	}
	w := want.config()
	if *got != w {
		return harness.Failf("C18|aacentry|config-mismatch", "SetAACDescriptor(%d,%d): decoded config %+v, want %+v", c.ObjectType, c.Freq, *got, w)
	}
	if !bytes.Equal(dsi.DecConfig, refASC(want)) {
		return harness.Failf("C18|aacentry|asc-bytes", "DecConfig %x, reference %x", dsi.DecConfig, refASC(want))
	}
	return nil
}

// entryMultiCase: several audio tracks in ONE init segment, each given its own configuration with
// SetAACDescriptor before anything is encoded (the history in which a sample entry built earlier must not
// be disturbed by one built later); every track must decode back to its own configuration.
type entryMultiCase struct {
	Entries []entryCase
}

func wantEntryASC(c entryCase) ascCase {
	want := ascCase{ObjectType: c.ObjectType, Freq: c.Freq, Channels: 2}
	if c.ObjectType != 2 {
		want.ExtFreq = 2 * c.Freq
	}
	if c.ObjectType == 29 {
		want.Channels = 1
	}
	return want
}

func checkAACEntryMulti(c entryMultiCase) *harness.Fail {
	init := mp4.CreateEmptyInit()
	for i, e := range c.Entries {
		init.AddEmptyTrack(uint32(e.Freq), "audio", "und")
		trak := init.Moov.Traks[i]
		if err := trak.SetAACDescriptor(e.ObjectType, e.Freq); err != nil {
			return harness.Failf("C18|aacentry|set-error", "SetAACDescriptor(%d,%d): %v", e.ObjectType, e.Freq, err)
		}
	}
	for round := 0; round < 2; round++ { // before and after an encode/decode
		var traks []*mp4.TrakBox
		if round == 0 {
			traks = init.Moov.Traks
		} else {
			buf := bytes.Buffer{}
			if err := init.Encode(&buf); err != nil {
				return harness.Failf("C18|aacentry|encode-error", "%v", err)
			}
			f, err := mp4.DecodeFile(bytes.NewReader(buf.Bytes()))
			if err != nil {
				return harness.Failf("C18|aacentry|decode-error", "%v", err)
			}
			if f.Init == nil || f.Init.Moov == nil {
				return harness.Failf("C18|aacentry|no-init", "decoded file has no init")
			}
			traks = f.Init.Moov.Traks
		}
		if len(traks) != len(c.Entries) {
			return harness.Failf("C18|aacentry|track-count", "%d tracks, want %d", len(traks), len(c.Entries))
		}
		for i, e := range c.Entries {
			stsd := traks[i].Mdia.Minf.Stbl.Stsd
			if stsd.Mp4a == nil || stsd.Mp4a.Esds == nil || stsd.Mp4a.Esds.DecConfigDescriptor == nil || stsd.Mp4a.Esds.DecConfigDescriptor.DecSpecificInfo == nil {
				return harness.Failf("C18|aacentry|no-mp4a-esds", "track %d: no mp4a/esds/decoder specific info", i)
			}
			dsi := stsd.Mp4a.Esds.DecConfigDescriptor.DecSpecificInfo
			want := wantEntryASC(e)
			got, err := aac.DecodeAudioSpecificConfig(bytes.NewReader(dsi.DecConfig))
			if err != nil {
				return harness.Failf("C18|aacentry|asc-decode-error", "track %d of %d (round %d) %x: %v", i, len(c.Entries), round, dsi.DecConfig, err)
			}
			if w := want.config(); *got != w {
				return harness.Failf("C18|aacentry|config-mismatch", "track %d of %d (round %d) SetAACDescriptor(%d,%d): decoded config %+v, want %+v", i, len(c.Entries), round, e.ObjectType, e.Freq, *got, w)
			}
			if !bytes.Equal(dsi.DecConfig, refASC(want)) {
				return harness.Failf("C18|aacentry|asc-bytes", "track %d: DecConfig %x, reference %x", i, dsi.DecConfig, refASC(want))
			}
		}
	}
	return nil
}

// checkEntryBox: an mp4a sample entry built around the reference AudioSpecificConfig bytes with the box
// constructors, encoded and decoded as a box: the decoder specific info is carried unchanged and decodes
// to the configuration.
func checkEntryBox(c ascCase) *harness.Fail {
	asc := refASC(c)
	rate := uint16(0)
	if c.Freq <= 0xffff {
		rate = uint16(c.Freq)
	}
	entry := mp4.CreateAudioSampleEntryBox("mp4a", uint16(c.Channels), 16, rate, mp4.CreateEsdsBox(append([]byte{}, asc...)))
	buf := bytes.Buffer{}
	if err := entry.Encode(&buf); err != nil {
		return harness.Failf("C18|aacentrybox|encode-error", "%+v: %v", c, err)
	}
	if uint64(buf.Len()) != entry.Size() {
		return harness.Failf("C18|aacentrybox|size", "Size() %d, encoded %d bytes", entry.Size(), buf.Len())
	}
	box, err := mp4.DecodeBox(0, bytes.NewReader(buf.Bytes()))
	if err != nil {
		return harness.Failf("C18|aacentrybox|decode-error", "%+v (%x): %v", c, buf.Bytes(), err)
	}
	got, ok := box.(*mp4.AudioSampleEntryBox)
	if !ok || got.Esds == nil {
		return harness.Failf("C18|aacentrybox|no-mp4a-esds", "decoded %T", box)
	}
	dsi := got.Esds.DecConfigDescriptor.DecSpecificInfo
	if dsi == nil {
		return harness.Failf("C18|aacentrybox|no-decspecificinfo", "no DecSpecificInfo")
	}
	if !bytes.Equal(dsi.DecConfig, asc) {
		return harness.Failf("C18|aacentrybox|asc-bytes", "%+v: DecConfig %x, written %x", c, dsi.DecConfig, asc)
	}
	conf, err := aac.DecodeAudioSpecificConfig(bytes.NewReader(dsi.DecConfig))
	if err != nil {
		return harness.Failf("C18|aacentrybox|asc-decode-error", "%x: %v", dsi.DecConfig, err)
	}
	if w := c.config(); *conf != w {
		return harness.Failf("C18|aacentrybox|config-mismatch", "%x: decoded config %+v, want %+v", asc, *conf, w)
	}
	if got.ChannelCount != uint16(c.Channels) || got.SampleRate != rate || got.SampleSize != 16 {
		return harness.Failf("C18|aacentrybox|entry-fields", "channels %d rate %d size %d, want %d %d 16", got.ChannelCount, got.SampleRate, got.SampleSize, c.Channels, rate)
	}
	again := bytes.Buffer{}
	if err := got.Encode(&again); err != nil || !bytes.Equal(again.Bytes(), buf.Bytes()) {
		return harness.Failf("C18|aacentrybox|re-encoding differs", "err %v: %x vs %x", err, again.Bytes(), buf.Bytes())
	}
	return nil
}

func TestAACEntry(t *testing.T) {
	idx := 0
	freqs := append([]int{}, tableFreqs...)
	freqs = append(freqs, 1, 7349, 7351, 47999, 48001, 65535, 65536, 100000, 192000, 1<<23-1)
	for _, ot := range []byte{2, 5, 29} {
		for _, f := range freqs {
			idx++
			if idx%harness.E.NShards != harness.E.Shard {
				continue
			}
			c := entryCase{ot, f}
			cls := "aacentry-tablefreq"
			if !isTable(f) {
				cls = "aacentry-explicitfreq"
			}
			harness.Rec.CaseDistinct(true, cls)
			if harness.Rec.WantSample() && f == 44100 {
				harness.Rec.Sample(map[string]interface{}{"kind": "aacentry", "case": c})
			}
			harness.ReportDirect(t, "aacentry", c, harness.Guarded(func() *harness.Fail { return checkAACEntry(c) }))
		}
	}
	harness.Rec.Exhaustive("AAC sample entry: {2,5,29} x 13 table frequencies + 10 explicit")
	// several tracks in one init segment: every ordered pair of (object type, frequency), and for each pair a
	// third entry chosen by rotation
	var all []entryCase
	for _, ot := range []byte{2, 5, 29} {
		for _, f := range freqs {
			all = append(all, entryCase{ot, f})
		}
	}
	var nm int64
	for i, a := range all {
		for j, b := range all {
			idx++
			if idx%harness.E.NShards != harness.E.Shard {
				continue
			}
			mc := entryMultiCase{Entries: []entryCase{a, b}}
			if (i+j)%3 == 0 {
				mc.Entries = append(mc.Entries, all[(i*7+j*13+5)%len(all)])
			}
			nm++
			if harness.Rec.WantSample() && i == 3 && j == 40 {
				harness.Rec.Sample(map[string]interface{}{"kind": "aacentrymulti", "case": mc})
			}
			if harness.ReportDirect(t, "aacentrymulti", mc, harness.Guarded(func() *harness.Fail { return checkAACEntryMulti(mc) })) {
				return
			}
		}
	}
	harness.Rec.BulkDistinct(nm, nm, "aacentry-multitrack")
	harness.Rec.Exhaustive("AAC sample entries of 2-3 audio tracks in one init segment: every ordered pair of ({2,5,29} x 23 frequencies)")
	// every configuration of the TestASC boundary enumeration through the box constructors
	bad := 0
	var n [3]int64
	forEachBoundaryASC(boundaryFreqs(), func(c ascCase) {
		idx++
		if idx%harness.E.NShards != harness.E.Shard || bad > 3 {
			return
		}
		n[map[byte]int{2: 0, 5: 1, 29: 2}[c.ObjectType]]++
		if harness.Rec.WantSample() && idx%9973 == 7 {
			harness.Rec.Sample(map[string]interface{}{"kind": "aacentrybox", "case": c, "asc": fmt.Sprintf("%x", refASC(c))})
		}
		if harness.ReportDirect(t, "aacentrybox", c, harness.Guarded(func() *harness.Fail { return checkEntryBox(c) })) {
			bad++
		}
	})
	for i, ot := range []int{2, 5, 29} {
		harness.Rec.BulkDistinct(n[i], n[i], fmt.Sprintf("aacentrybox-aot%d", ot))
	}
	harness.Rec.Exhaustive("AAC sample entry boxes: CreateEsdsBox/CreateAudioSampleEntryBox over the ASC boundary enumeration")
}
