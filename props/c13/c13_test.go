// C13 — bit, Exp-Golomb and emulation-prevention coding are exact inverses.
package c13

import (
	"bytes"
	"encoding/json"
	"fmt"
	"testing"
	"testing/iotest"

	"github.com/Eyevinn/mp4ff/bits"
	"pgregory.net/rapid"

	"verif/internal/harness"
	"verif/internal/nalgen"
)

func TestMain(m *testing.M) { harness.Main(m) }

func init() {
	harness.RegisterReplay("oplist", harness.Replayer(checkOps))
	harness.RegisterReplay("bytes", harness.Replayer(checkBytes))
	harness.RegisterReplay("trailing", harness.Replayer(checkTrailing))
}

func TestReplay(t *testing.T) { harness.ReplayPath(t) }

// ---------------------------------------------------------------------------------------------
// (a) operation lists

type op struct {
	K string `json:"k"` // "u" fixed width, "f" flag, "ue", "se", "sei" (ff_byte run coding of SEI type/size, ebsp writer only)
	W int    `json:"w,omitempty"`
	V int64  `json:"v"`
	// B ("b" only, ebsp writer): a run of whole bytes written one by one at the current (any) bit alignment and read
	// back with one EBSPReader.ReadBytes call
	B harness.HexBytes `json:"b,omitempty"`
}

type opsCase struct {
	Writer string `json:"writer"` // "ebsp" | "plain" | "fsw"
	Ops    []op   `json:"ops"`
}

func boundaryU(w int) *rapid.Generator[uint64] {
	max := uint64(1)<<uint(w) - 1
	return rapid.OneOf(
		rapid.Uint64Range(0, max),
		rapid.SampledFrom([]uint64{0, 0, 0, 1, 2, 3, max, max - 1, max >> 1, (max >> 1) + 1}).Filter(func(v uint64) bool { return v <= max }),
	)
}

func genOps(t *rapid.T) opsCase {
	c := opsCase{Writer: rapid.SampledFrom([]string{"ebsp", "ebsp", "plain", "fsw"}).Draw(t, "writer")}
	n := rapid.IntRange(1, 40).Draw(t, "n")
	for i := 0; i < n; i++ {
		kinds := []string{"u", "u", "f", "ue", "se", "z", "sei", "b"}
		if c.Writer != "ebsp" {
			kinds = []string{"u", "u", "f", "z"}
		}
		k := rapid.SampledFrom(kinds).Draw(t, "kind")
		switch k {
		case "u":
			w := rapid.IntRange(1, 32).Draw(t, "w")
			c.Ops = append(c.Ops, op{K: "u", W: w, V: int64(boundaryU(w).Draw(t, "v"))})
		case "z": // zero-heavy byte-ish writes to provoke escapes
			w := rapid.SampledFrom([]int{8, 8, 16, 24, 32, 7, 9}).Draw(t, "w")
			v := rapid.SampledFrom([]uint64{0, 0, 1, 2, 3, 4, 0x000001, 0x000003, 0x00000300, 0x0300}).Draw(t, "v")
			c.Ops = append(c.Ops, op{K: "u", W: w, V: int64(v & (1<<uint(w) - 1))})
		case "f":
			c.Ops = append(c.Ops, op{K: "f", V: int64(rapid.IntRange(0, 1).Draw(t, "b"))})
		case "b":
			n := rapid.SampledFrom([]int{1, 2, 7, 8, 9, 15, 16, 17, 24, 40}).Draw(t, "nbytes")
			run := rapid.SliceOfN(rapid.OneOf(rapid.SampledFrom([]byte{0, 0, 1, 3, 0xff, 0x80}), rapid.Byte()), n, n).Draw(t, "run")
			c.Ops = append(c.Ops, op{K: "b", B: run})
		case "ue":
			v := rapid.OneOf(rapid.Uint64Range(0, 40), rapid.Uint64Range(0, 1<<32-2),
				rapid.SampledFrom([]uint64{0, 1, 2, 6, 7, 8, 254, 255, 256, 65534, 65535, 65536, 1<<31 - 2, 1<<31 - 1, 1 << 31, 1<<32 - 3, 1<<32 - 2})).Draw(t, "ue")
			c.Ops = append(c.Ops, op{K: "ue", V: int64(v)})
		case "se":
			v := rapid.OneOf(rapid.Int64Range(-20, 20), rapid.Int64Range(-(1<<31-1), 1<<31-1),
				rapid.SampledFrom([]int64{0, 1, -1, 127, -127, 128, -128, 32767, -32768, 1<<31 - 1, -(1<<31 - 1)})).Draw(t, "se")
			c.Ops = append(c.Ops, op{K: "se", V: v})
		case "sei":
			// payload type / payload size coding of sei_message() (H.264 7.3.2.3.1, H.265 7.3.5): only ever
			// written at byte-aligned positions, so an aligning fixed-width write is put in front if needed.
			_, ends := refBits(c.Ops)
			if len(ends) > 0 && ends[len(ends)-1]%8 != 0 {
				w := 8 - ends[len(ends)-1]%8
				c.Ops = append(c.Ops, op{K: "u", W: w, V: int64(boundaryU(w).Draw(t, "alignv"))})
			}
			v := rapid.OneOf(rapid.SampledFrom(seiValues), rapid.Uint64Range(0, 70000)).Draw(t, "sei")
			c.Ops = append(c.Ops, op{K: "sei", V: int64(v)})
		}
	}
	return c
}

var seiValues = []uint64{0, 1, 254, 255, 256, 509, 510, 511, 65535}

// refBits serialises the ops with the harness' own writer and returns the raw (unescaped) bytes
// together with the bit position after each op.
func refBits(ops []op) (rbsp []byte, ends []int) {
	w := nalgen.NewBitWriter()
	for _, o := range ops {
		switch o.K {
		case "u":
			w.U(uint64(o.V), o.W)
		case "f":
			w.U(uint64(o.V), 1)
		case "ue":
			w.UE(uint64(o.V))
		case "se":
			w.SE(o.V)
		case "b":
			w.Bytes(o.B)
		case "sei":
			// while (v >= 255) { ff_byte; v -= 255 }  last_payload_*_byte = v: v/255 bytes FF, then v%255
			for i := int64(0); i < o.V/255; i++ {
				w.U(0xff, 8)
			}
			w.U(uint64(o.V%255), 8)
		}
		ends = append(ends, w.NrBits())
	}
	return w.Out(), ends
}

func checkOps(c opsCase) *harness.Fail {
	rbsp, ends := refBits(c.Ops)
	totalBits := 0
	if len(ends) > 0 {
		totalBits = ends[len(ends)-1]
	}
	var got []byte
	switch c.Writer {
	case "ebsp":
		buf := bytes.Buffer{}
		w := bits.NewEBSPWriter(&buf)
		staleHigh := false
		for i, o := range c.Ops {
			switch o.K {
			case "u":
				w.Write(uint(o.V), o.W)
			case "f":
				w.Write(uint(o.V), 1)
			case "ue":
				w.WriteExpGolomb(uint(o.V))
			case "se":
				w.WriteExpGolomb(uint(nalgen.SEMap(o.V)))
			case "b":
				for _, x := range o.B {
					w.Write(uint(x), 8)
				}
			case "sei":
				w.WriteSEIValue(uint(o.V))
			}
			// BitsInBuffer: "n bits written in buffer byte, not written to underlying writer": n is the
			// number of pending bits of the reference accumulator (position mod 8) and the n low bits of
			// the value are those pending bits. The bits above the n-th are not covered by the comment
			// (the library keeps the low 8 bits of its accumulator, so already emitted bits can show up
			// there); they are counted, not judged.
			p := ends[i]
			pend := uint(0)
			if p%8 != 0 {
				pend = uint(rbsp[p/8]) >> uint(8-p%8)
			}
			bv, bn := w.BitsInBuffer()
			if int(bn) != p%8 || int(w.NrBitsInBuffer()) != p%8 {
				return harness.Failf("C13|EBSPWriter.BitsInBuffer|bit count differs", "after op %d %+v: BitsInBuffer n=%d NrBitsInBuffer=%d, reference has %d pending bits", i, o, bn, w.NrBitsInBuffer(), p%8)
			}
			if bv&(1<<bn-1) != pend {
				return harness.Failf("C13|EBSPWriter.BitsInBuffer|pending bits differ", "after op %d %+v: BitsInBuffer = (%#x, %d), reference pending bits %#x", i, o, bv, bn, pend)
			}
			if bv>>bn != 0 {
				staleHigh = true
			}
		}
		if staleHigh {
			harness.Rec.Class("bitsinbuffer-value-has-bits-above-n")
		}
		if nb := int(w.NrBitsInBuffer()); nb != totalBits%8 {
			return harness.Failf("C13|EBSPWriter.NrBitsInBuffer|differs", "NrBitsInBuffer %d, want %d", nb, totalBits%8)
		}
		w.StuffByteWithZeros()
		if err := w.AccError(); err != nil {
			return harness.Failf("C13|EBSPWriter|error", "%v", err)
		}
		got = buf.Bytes()
		want := nalgen.Escape(rbsp)
		if !bytes.Equal(got, want) {
			return harness.Failf("C13|EBSPWriter|output differs from reference escaper", "ops %v: got %x want %x", c.Ops, got, want)
		}
		if nalgen.HasForbidden(got) {
			return harness.Failf("C13|EBSPWriter|forbidden pattern emitted", "%x", got)
		}
		// read back
		pos := nalgen.EscapePositions(rbsp)
		r := bits.NewEBSPReader(bytes.NewReader(got))
		for i, o := range c.Ops {
			var v int64
			switch o.K {
			case "u":
				v = int64(r.Read(o.W))
			case "f":
				if r.ReadFlag() {
					v = 1
				}
			case "ue":
				v = int64(r.ReadExpGolomb())
			case "se":
				v = int64(r.ReadSignedGolomb())
			case "b":
				if back := r.ReadBytes(len(o.B)); !bytes.Equal(back, o.B) {
					return harness.Failf("C13|EBSPReader.ReadBytes|bytes differ", "op %d at rbsp bit %d: ReadBytes(%d) = %x, written %x (err %v, stream %x)", i, ends[i]-8*len(o.B), len(o.B), back, []byte(o.B), r.AccError(), got)
				}
			case "sei":
				for {
					b := r.Read(8)
					v += int64(b)
					if b < 255 || r.AccError() != nil {
						break
					}
				}
			}
			if err := r.AccError(); err != nil {
				return harness.Failf("C13|EBSPReader|error", "op %d %+v: %v", i, o, err)
			}
			if v != o.V {
				return harness.Failf("C13|EBSPReader."+readerFn(o.K)+"|value differs", "op %d %+v read back as %d (stream %x)", i, o, v, got)
			}
			p := ends[i]
			k := (p + 7) / 8
			wantBytes := 0
			if k > 0 {
				wantBytes = pos[k-1] + 1
			}
			wantBits := 8*wantBytes - (8*k - p)
			if r.NrBytesRead() != wantBytes {
				return harness.Failf("C13|EBSPReader.NrBytesRead|position differs", "after op %d: NrBytesRead %d, escaped-stream position %d (stream %x)", i, r.NrBytesRead(), wantBytes, got)
			}
			if r.NrBitsRead() != wantBits {
				return harness.Failf("C13|EBSPReader.NrBitsRead|position differs", "after op %d: NrBitsRead %d, want %d (stream %x)", i, r.NrBitsRead(), wantBits, got)
			}
			if nb := r.NrBitsReadInCurrentByte(); nb != bitsInCurrentByte(p) {
				return harness.Failf("C13|EBSPReader.NrBitsReadInCurrentByte|position differs", "after op %d at rbsp bit %d: %d, want %d (stream %x)", i, p, nb, bitsInCurrentByte(p), got)
			}
		}
		return nil
	case "plain":
		buf := bytes.Buffer{}
		w := bits.NewWriter(&buf)
		for _, o := range c.Ops {
			w.Write(uint(o.V), widthOf(o))
		}
		w.Flush()
		w.Flush() // byte-aligned now: nothing left to flush
		if err := w.AccError(); err != nil {
			return harness.Failf("C13|Writer|error", "%v", err)
		}
		got = buf.Bytes()
	case "fsw":
		// an exactly fitting buffer, or (every other case) one with room to spare: a flush that writes more than
		// the pending bits shows as an overflow in the first and as extra bytes in the second
		spare := 0
		if len(c.Ops)%2 == 1 {
			spare = 5
		}
		sw := bits.NewFixedSliceWriter((totalBits+7)/8 + spare)
		for _, o := range c.Ops {
			if o.K == "f" {
				sw.WriteFlag(o.V == 1)
			} else {
				sw.WriteBits(uint(o.V), o.W)
			}
		}
		sw.FlushBits()
		sw.FlushBits() // byte-aligned now: nothing left to flush
		if err := sw.AccError(); err != nil {
			return harness.Failf("C13|FixedSliceWriter|error", "%v (capacity %d bits %d)", err, (totalBits+7)/8, totalBits)
		}
		got = sw.Bytes()
	}
	if !bytes.Equal(got, rbsp) {
		return harness.Failf("C13|"+c.Writer+"|output differs from reference bit writer", "ops %v: got %x want %x", c.Ops, got, rbsp)
	}
	r := bits.NewReader(bytes.NewReader(got))
	for i, o := range c.Ops {
		var v int64
		if o.K == "f" {
			if r.ReadFlag() {
				v = 1
			}
		} else {
			v = int64(r.Read(o.W))
		}
		if err := r.AccError(); err != nil {
			return harness.Failf("C13|Reader|error", "op %d: %v", i, err)
		}
		if v != o.V {
			return harness.Failf("C13|Reader.Read|value differs", "op %d %+v read back as %d (stream %x)", i, o, v, got)
		}
		p := ends[i]
		if r.NrBitsRead() != p || r.NrBytesRead() != (p+7)/8 {
			return harness.Failf("C13|Reader.NrBitsRead|position differs", "after op %d: bits %d bytes %d want %d/%d", i, r.NrBitsRead(), r.NrBytesRead(), p, (p+7)/8)
		}
		if nb := r.NrBitsReadInCurrentByte(); nb != bitsInCurrentByte(p) {
			return harness.Failf("C13|Reader.NrBitsReadInCurrentByte|position differs", "after op %d at bit %d: %d, want %d", i, p, nb, bitsInCurrentByte(p))
		}
	}
	// the same stream through a reader that hands out its last byte together with io.EOF (allowed by the io.Reader
	// contract; testing/iotest.DataErrReader): same values, no error
	r3 := bits.NewReader(iotest.DataErrReader(bytes.NewReader(got)))
	for i, o := range c.Ops {
		var v int64
		if o.K == "f" {
			if r3.ReadFlag() {
				v = 1
			}
		} else {
			v = int64(r3.Read(o.W))
		}
		if err := r3.AccError(); err != nil {
			return harness.Failf("C13|Reader|error", "op %d through a reader that returns its last byte together with io.EOF: %v", i, err)
		}
		if v != o.V {
			return harness.Failf("C13|Reader.Read|value differs", "op %d %+v read back as %d through a reader that returns its last byte together with io.EOF (stream %x)", i, o, v, got)
		}
	}
	// two's complement signed reads of the same stream
	r2 := bits.NewReader(bytes.NewReader(got))
	for i, o := range c.Ops {
		w := widthOf(o)
		v := r2.ReadSigned(w)
		want := o.V
		if w < 64 && o.V>>(uint(w)-1)&1 == 1 {
			want = o.V - (1 << uint(w))
		}
		if r2.AccError() != nil || int64(v) != want {
			return harness.Failf("C13|Reader.ReadSigned|value differs", "op %d %+v: ReadSigned(%d) = %d want %d", i, o, w, v, want)
		}
	}
	return nil
}

// bitsInCurrentByte is "number of bits read in current byte" after p > 0 bits were consumed: the current
// byte is the last one fetched, i.e. the one holding bit p-1, of which 1..8 bits have been read.
func bitsInCurrentByte(p int) int {
	if p <= 0 {
		return 8 // nothing fetched yet: the library reports 8 (and NrBytesRead 0); not reached by generated ops
	}
	return (p-1)%8 + 1
}

func widthOf(o op) int {
	if o.K == "f" {
		return 1
	}
	return o.W
}

func readerFn(k string) string {
	switch k {
	case "u":
		return "Read"
	case "f":
		return "ReadFlag"
	case "ue":
		return "ReadExpGolomb"
	case "sei":
		return "Read(ff_byte run)"
	}
	return "ReadSignedGolomb"
}

func TestOps(t *testing.T) {
	harness.RunRapid(t, "ops", func(rt *rapid.T) {
		c := genOps(rt)
		raw, _ := json.Marshal(c)
		rbsp, ends := refBits(c.Ops)
		unaligned := false
		for _, e := range ends[:len(ends)-1] {
			if e%8 != 0 {
				unaligned = true
			}
		}
		escapes := len(nalgen.Escape(rbsp)) - len(rbsp)
		cls := []string{"ops-" + c.Writer}
		if c.Writer == "ebsp" && escapes > 0 {
			cls = append(cls, "ops-ebsp-with-escape")
		}
		seen := map[string]bool{}
		for _, o := range c.Ops {
			if o.K != "sei" {
				continue
			}
			l := "ops-sei-value-0..254"
			switch {
			case o.V >= 510:
				l = "ops-sei-value-two-or-more-ff-bytes"
			case o.V >= 255:
				l = "ops-sei-value-one-ff-byte"
			}
			if o.V%255 == 0 && o.V > 0 {
				seen["ops-sei-value-multiple-of-255"] = true
			}
			seen[l] = true
		}
		for _, l := range []string{"ops-sei-value-0..254", "ops-sei-value-one-ff-byte", "ops-sei-value-two-or-more-ff-bytes", "ops-sei-value-multiple-of-255"} {
			if seen[l] {
				cls = append(cls, l)
			}
		}
		harness.Rec.Case(unaligned || (c.Writer == "ebsp" && escapes > 0), raw, cls...)
		if harness.Rec.WantSample() && c.Writer == "ebsp" && escapes > 0 {
			harness.Rec.Sample(map[string]interface{}{"kind": "oplist", "case": c, "escaped": fmt.Sprintf("%x", nalgen.Escape(rbsp))})
		}
		harness.Report(rt, "oplist", c, harness.Guarded(func() *harness.Fail { return checkOps(c) }))
	})
}

// ---------------------------------------------------------------------------------------------
// (b)+(c) byte strings through the emulation-preventing writer/reader

type bytesCase struct {
	Data   harness.HexBytes `json:"data"`
	Mode   int              `json:"mode"`   // 0 byte-wise, 1 split into Widths, 2 shifted by Prefix bits
	Widths []int            `json:"widths"` // mode 1: bit widths cycling
	Prefix int              `json:"prefix"` // mode 2: 1..7 leading one-bits... (value PrefixV)
	PrefV  uint             `json:"prefv"`
}

func checkBytes(c bytesCase) *harness.Fail {
	data := []byte(c.Data)
	buf := bytes.Buffer{}
	w := bits.NewEBSPWriter(&buf)
	var rbsp []byte
	switch c.Mode {
	case 0:
		for _, b := range data {
			w.Write(uint(b), 8)
		}
		rbsp = data
	case 1:
		// one long bit string cut at the given widths
		total := 8 * len(data)
		p := 0
		for i := 0; p < total; i++ {
			n := c.Widths[i%len(c.Widths)]
			if n > total-p {
				n = total - p
			}
			var v uint
			for k := 0; k < n; k++ {
				bit := (data[(p+k)/8] >> uint(7-(p+k)%8)) & 1
				v = v<<1 | uint(bit)
			}
			w.Write(v, n)
			p += n
		}
		rbsp = data
	case 2:
		w.Write(c.PrefV, c.Prefix)
		for _, b := range data {
			w.Write(uint(b), 8)
		}
		w.StuffByteWithZeros()
		bw := nalgen.NewBitWriter()
		bw.U(uint64(c.PrefV), c.Prefix)
		bw.Bytes(data)
		rbsp = bw.Out()
	}
	if err := w.AccError(); err != nil {
		return harness.Failf("C13|EBSPWriter|error", "%v", err)
	}
	got := buf.Bytes()
	want := nalgen.Escape(rbsp)
	if !bytes.Equal(got, want) {
		return harness.Failf("C13|EBSPWriter|output differs from reference escaper", "mode %d rbsp %x: got %x want %x", c.Mode, rbsp, got, want)
	}
	if nalgen.HasForbidden(got) {
		return harness.Failf("C13|EBSPWriter|forbidden pattern emitted", "%x", got)
	}
	// every 00 00 03 in the output is an escape: removing them must give back rbsp, and the number of
	// inserted bytes is what the reference says (minimal by construction of the reference).
	if !bytes.Equal(nalgen.Unescape(got), rbsp) {
		return harness.Failf("C13|EBSPWriter|unescaped output differs from input", "%x -> %x", rbsp, got)
	}
	// reader: byte-wise with position checks
	pos := nalgen.EscapePositions(rbsp)
	r := bits.NewEBSPReader(bytes.NewReader(got))
	for i := range rbsp {
		b := byte(r.Read(8))
		if err := r.AccError(); err != nil {
			return harness.Failf("C13|EBSPReader|error", "byte %d of %x: %v", i, got, err)
		}
		if b != rbsp[i] {
			return harness.Failf("C13|EBSPReader.Read|value differs", "byte %d of %x: got %02x want %02x", i, got, b, rbsp[i])
		}
		if r.NrBytesRead() != pos[i]+1 {
			return harness.Failf("C13|EBSPReader.NrBytesRead|position differs", "after rbsp byte %d of %x: %d want %d", i, got, r.NrBytesRead(), pos[i]+1)
		}
		if r.NrBitsRead() != 8*(pos[i]+1) {
			return harness.Failf("C13|EBSPReader.NrBitsRead|position differs", "after rbsp byte %d of %x: %d want %d", i, got, r.NrBitsRead(), 8*(pos[i]+1))
		}
	}
	// reader: ReadBytes in one go
	r2 := bits.NewEBSPReader(bytes.NewReader(got))
	all := r2.ReadBytes(len(rbsp))
	if r2.AccError() != nil || !bytes.Equal(all, rbsp) {
		return harness.Failf("C13|EBSPReader.ReadBytes|value differs", "%x -> %x (err %v), want %x", got, all, r2.AccError(), rbsp)
	}
	// reader: odd widths (5 bits at a time)
	r3 := bits.NewEBSPReader(bytes.NewReader(got))
	total := 8 * len(rbsp)
	for p := 0; p < total; {
		n := 5
		if n > total-p {
			n = total - p
		}
		v := r3.Read(n)
		var wantV uint
		for k := 0; k < n; k++ {
			wantV = wantV<<1 | uint((rbsp[(p+k)/8]>>uint(7-(p+k)%8))&1)
		}
		if r3.AccError() != nil || v != wantV {
			return harness.Failf("C13|EBSPReader.Read|value differs", "5-bit read at bit %d of %x: %d want %d (err %v)", p, got, v, wantV, r3.AccError())
		}
		p += n
		k := (p + 7) / 8
		if wb := 8*(pos[k-1]+1) - (8*k - p); r3.NrBitsRead() != wb {
			return harness.Failf("C13|EBSPReader.NrBitsRead|position differs", "at rbsp bit %d of %x: %d want %d", p, got, r3.NrBitsRead(), wb)
		}
	}
	return nil
}

var alphabet = []byte{0, 1, 2, 3, 4}

func TestBytesExhaustive(t *testing.T) {
	maxLen := harness.Pick(8, 10)
	var total, nt int64
	bad := 0
	widthSets := [][]int{{1}, {3}, {7, 9}, {13}, {32, 1, 2}, {5, 11, 17}}
	var rec func(cur []byte, idx *int64)
	rec = func(cur []byte, idx *int64) {
		if bad > 2 {
			return
		}
		if len(cur) > 0 {
			*idx++
			if int(*idx%int64(harness.E.NShards)) == harness.E.Shard {
				data := append([]byte{}, cur...)
				esc := len(nalgen.Escape(data)) != len(data)
				cases := []bytesCase{
					{Data: data, Mode: 0},
					{Data: data, Mode: 1, Widths: widthSets[int(*idx)%len(widthSets)]},
					{Data: data, Mode: 2, Prefix: 1 + int(*idx)%7, PrefV: uint(*idx) & 0x7f & (1<<uint(1+int(*idx)%7) - 1)},
				}
				for _, c := range cases {
					total++
					if esc || c.Mode == 2 {
						nt++
					}
					if f := harness.Guarded(func() *harness.Fail { return checkBytes(c) }); f != nil {
						if harness.ReportDirect(t, "bytes", c, f) {
							bad++
						}
					}
				}
				if esc && harness.Rec.WantSample() && len(cur) == 6 {
					harness.Rec.Sample(map[string]interface{}{"kind": "bytes", "case": cases[1], "escaped": fmt.Sprintf("%x", nalgen.Escape(data))})
				}
			}
		}
		if len(cur) == maxLen {
			return
		}
		for _, a := range alphabet {
			rec(append(cur, a), idx)
		}
	}
	var idx int64
	rec(nil, &idx)
	harness.Rec.BulkDistinct(total, nt, "bytes-exhaustive")
	harness.Rec.Exhaustive(fmt.Sprintf("all byte strings over {00,01,02,03,04} of length 1..%d, each written byte-wise, bit-split and bit-shifted", maxLen))
}

func genBytes(t *rapid.T) bytesCase {
	n := rapid.IntRange(1, harness.Pick(200, 3000)).Draw(t, "n")
	data := rapid.SliceOfN(rapid.OneOf(
		rapid.SampledFrom([]byte{0, 0, 0, 0, 1, 2, 3, 3, 4, 0xff, 0x80}), rapid.Byte()), n, n).Draw(t, "data")
	c := bytesCase{Data: data, Mode: rapid.IntRange(0, 2).Draw(t, "mode")}
	switch c.Mode {
	case 1:
		c.Widths = rapid.SliceOfN(rapid.IntRange(1, 32), 1, 5).Draw(t, "widths")
	case 2:
		c.Prefix = rapid.IntRange(1, 7).Draw(t, "prefix")
		c.PrefV = uint(rapid.IntRange(0, 1<<uint(c.Prefix)-1).Draw(t, "prefv"))
	}
	return c
}

func TestBytesRandom(t *testing.T) {
	harness.RunRapid(t, "bytes", func(rt *rapid.T) {
		c := genBytes(rt)
		raw, _ := json.Marshal(c)
		esc := len(nalgen.Escape(c.Data)) - len(c.Data)
		harness.Rec.Case(esc > 0, raw, fmt.Sprintf("bytes-random-mode%d", c.Mode))
		harness.Report(rt, "bytes", c, harness.Guarded(func() *harness.Fail { return checkBytes(c) }))
	})
}

// ---------------------------------------------------------------------------------------------
// trailing bits / more_rbsp_data

type trailingCase struct {
	Head     harness.HexBytes `json:"head"`      // whole bytes before the query position
	HeadBits int              `json:"head_bits"` // 0..7 extra bits (value HeadV) before the query position
	HeadV    uint             `json:"headv"`
	More     harness.HexBytes `json:"more"`      // data bytes between the position and the trailing bits (may be empty)
	MoreBits int              `json:"more_bits"` // extra data bits
	MoreV    uint             `json:"morev"`
	ZeroTail int              `json:"zero_tail"` // whole zero bytes after the trailing bits (cabac_zero_words-like), 0..2
}

func checkTrailing(c trailingCase) *harness.Fail {
	bw := nalgen.NewBitWriter()
	bw.Bytes(c.Head)
	bw.U(uint64(c.HeadV), c.HeadBits)
	p := bw.NrBits()
	bw.Bytes(c.More)
	bw.U(uint64(c.MoreV), c.MoreBits)
	q := bw.NrBits() // position of the trailing bits
	bw.TrailingBits()
	for i := 0; i < c.ZeroTail; i++ {
		bw.U(0, 8)
	}
	rbsp := bw.Out()
	ebsp := nalgen.Escape(rbsp)
	// the same stream built with the library: EBSPWriter.Write for the data, WriteRbspTrailingBits for the
	// stop bit + alignment (the zero tail, cabac_zero_words-like, as plain zero bytes)
	{
		buf := bytes.Buffer{}
		w := bits.NewEBSPWriter(&buf)
		for _, b := range c.Head {
			w.Write(uint(b), 8)
		}
		w.Write(c.HeadV, c.HeadBits)
		for _, b := range c.More {
			w.Write(uint(b), 8)
		}
		w.Write(c.MoreV, c.MoreBits)
		w.WriteRbspTrailingBits()
		if nb := w.NrBitsInBuffer(); nb != 0 {
			return harness.Failf("C13|EBSPWriter.WriteRbspTrailingBits|not byte aligned afterwards", "%d bits pending after trailing bits at bit %d", nb, q)
		}
		for i := 0; i < c.ZeroTail; i++ {
			w.Write(0, 8)
		}
		if err := w.AccError(); err != nil {
			return harness.Failf("C13|EBSPWriter|error", "%v", err)
		}
		if !bytes.Equal(buf.Bytes(), ebsp) {
			return harness.Failf("C13|EBSPWriter.WriteRbspTrailingBits|output differs from reference", "data bits %d, zero tail %d: got %x want %x", q, c.ZeroTail, buf.Bytes(), ebsp)
		}
	}
	// reference: more data at p iff some 1 bit in [p,q)
	wantMore := false
	for i := p; i < q; i++ {
		if (rbsp[i/8]>>uint(7-i%8))&1 == 1 {
			wantMore = true
		}
	}
	if q > p && !wantMore {
		return nil // only zero bits before the trailing bits: more_rbsp_data is then "true" by the standard but the
		// pattern cannot be told from trailing zeros by any implementation looking for the last 1 bit; not generated
	}
	r := bits.NewEBSPReader(bytes.NewReader(ebsp))
	for i := 0; i < p; i++ {
		r.Read(1)
	}
	before := [2]int{r.NrBytesRead(), r.NrBitsRead()}
	more, err := r.MoreRbspData()
	if err != nil {
		return harness.Failf("C13|EBSPReader.MoreRbspData|error", "%v", err)
	}
	if more != wantMore {
		return harness.Failf("C13|EBSPReader.MoreRbspData|differs", "stream %x at bit %d: got %v want %v", ebsp, p, more, wantMore)
	}
	if after := [2]int{r.NrBytesRead(), r.NrBitsRead()}; after != before {
		return harness.Failf("C13|EBSPReader.MoreRbspData|position not restored", "%v -> %v", before, after)
	}
	// reading on after the query gives the same bits
	for i := p; i < q; i++ {
		b := r.Read(1)
		if r.AccError() != nil || b != uint((rbsp[i/8]>>uint(7-i%8))&1) {
			return harness.Failf("C13|EBSPReader.MoreRbspData|stream state not restored", "stream %x: bit %d after MoreRbspData at %d reads %d (err %v)", ebsp, i, p, b, r.AccError())
		}
	}
	if err := r.ReadRbspTrailingBits(); err != nil {
		return harness.Failf("C13|EBSPReader.ReadRbspTrailingBits|rejects valid trailing bits", "stream %x at bit %d: %v", ebsp, q, err)
	}
	if r.AccError() != nil {
		return harness.Failf("C13|EBSPReader.ReadRbspTrailingBits|error left", "%v", r.AccError())
	}
	if wantMore {
		// at p the remaining bits are not trailing bits: must be refused
		r2 := bits.NewEBSPReader(bytes.NewReader(ebsp))
		for i := 0; i < p; i++ {
			r2.Read(1)
		}
		if err := r2.ReadRbspTrailingBits(); err == nil {
			return harness.Failf("C13|EBSPReader.ReadRbspTrailingBits|accepts data as trailing bits", "stream %x at bit %d", ebsp, p)
		}
	}
	return nil
}

func genTrailing(t *rapid.T) trailingCase {
	zb := rapid.SampledFrom([]byte{0, 0, 0, 1, 2, 3, 0x80, 0xff, 0x40})
	c := trailingCase{
		Head:     rapid.SliceOfN(zb, 0, 6).Draw(t, "head"),
		HeadBits: rapid.IntRange(0, 7).Draw(t, "hb"),
		More:     rapid.SliceOfN(zb, 0, 6).Draw(t, "more"),
		MoreBits: rapid.IntRange(0, 7).Draw(t, "mb"),
		ZeroTail: rapid.SampledFrom([]int{0, 0, 0, 1, 2}).Draw(t, "zt"),
	}
	c.HeadV = uint(rapid.IntRange(0, 1<<uint(c.HeadBits)-1).Draw(t, "hv"))
	c.MoreV = uint(rapid.IntRange(0, 1<<uint(c.MoreBits)-1).Draw(t, "mv"))
	return c
}

func TestTrailing(t *testing.T) {
	harness.RunRapid(t, "trailing", func(rt *rapid.T) {
		c := genTrailing(rt)
		raw, _ := json.Marshal(c)
		harness.Rec.Case(len(c.More) > 0 || c.MoreBits > 0 || c.HeadBits > 0, raw, "trailing")
		harness.Report(rt, "trailing", c, harness.Guarded(func() *harness.Fail { return checkTrailing(c) }))
	})
}
