// C05 — samples written into fragments are read back exactly.
//
// A history of API calls (an op list) is drawn first and then interpreted: an init segment built with
// CreateEmptyInit/AddEmptyTrack (1..4 tracks, trex defaults set on the Trex boxes), media segments
// (with/without styp), single- and multi-track fragments, and sample additions through every Add*
// entry point of mp4.Fragment in the three documented data modes:
//
//	full      AddFullSample / AddFullSampleToTrack                      (data copied into mdat.Data)
//	meta      AddSample / AddSamples / AddSampleToTrack                 (lazy mdat: only the size is
//	          accumulated; the mdat header is encoded and the data is written right after it by the caller)
//	interval  AddSampleInterval                                         (mdat.DataParts)
//
// Documented preconditions that the generator respects (and the interpreter enforces as "bad case"):
//   - AddFullSample, AddSample, AddSamples, AddSampleInterval only on single-track fragments
//     ("first (and only) trun of a track", "for a fragment with only one track");
//   - the decode time passed with a sample equals the start time of the track plus the durations of
//     all samples added to the track before ("baseMediaDecodeTime will be used only for first sample");
//   - one data mode per fragment (mdat: "cannot mix sample parts with monolithic sample data",
//     "SetLazyDataSize: Don't put any data in m.Data in this mode");
//   - sample additions go to tracks the fragment was created for;
//   - boxes are added "in proper order": AddEmsg before any emsg is appended after the mdat with AddChild.
//
// Boxes are also added inside the moof (Moof.AddChild: free, skip, uuid, unknown, pssh) and inside the trafs
// (Traf.AddChild: free, skip, uuid, unknown), before, between and after the sample additions; they must come out
// byte for byte where they were put and must not disturb the data offsets. (A box between moof and mdat cannot be
// produced through the API and DecodeFile refuses it, so it is not generated.)
//
// The model is, per track, the ordered list of samples added (bytes, duration, flags, composition
// offset, decode time). Every history is encoded without optimisation and with OptimizeTrun (fresh
// structures each time because optimisation mutates tfhd/trun) through the encoder the case names
// (Encode to an io.Writer or EncodeSW to a SliceWriter; both when it names none) and each result is
// read back three ways: mp4.DecodeFile + Fragment.GetFullSamples(trex), mp4.DecodeFileSR + the same,
// and the independent reader fragbuild.Read (own offset arithmetic from the tfhd/trun fields), so that
// an error that is symmetric in SetTrunDataOffsets/GetFullSamples cannot cancel out.
//
// Further reads of every encoded variant: the media part alone (file minus ftyp+moov) through both decoders with the
// trex boxes of the separately decoded init; for fragments with one traf GetFullSamples(nil) and, with one trun,
// GetSampleInterval over four ranges. With OptimizeTrun the encoded bytes must show what the option promises
// (checkOptimised). A third of the cases carries TrexDrop: values equal to the trex defaults are switched off in
// tfhd/trun through the exported Flags fields before encoding, so that the decoder's trex fallback
// (TrunBox.AddSampleDefaultValues) decides what is read; the library itself never writes such fragments.
package c05

import (
	"bytes"
	"encoding/json"
	"fmt"
	"os"
	"sort"
	"strings"
	"testing"

	"github.com/Eyevinn/mp4ff/aac"
	"github.com/Eyevinn/mp4ff/bits"
	"github.com/Eyevinn/mp4ff/mp4"
	"pgregory.net/rapid"

	"verif/internal/boxwalk"
	"verif/internal/fragbuild"
	"verif/internal/harness"
)

// strictStructure (development aid, VERIF_C05_STRICT=1): also judge HOW the fragment is laid out (one traf per track of
// the fragment in creation order, mfhd sequence numbers, run data tiling the mdat in write order, the documented
// form of OptimizeTrun output). C05 is about the samples read back (and about other boxes being present), so these
// are counted as "layout:<what>" classes in the registered commands: a library that, say, leaves out the traf of an
// idle track or orders the runs differently keeps C05 true.
var strictStructure = os.Getenv("VERIF_C05_STRICT") == "1"

func layout(st *stats, f *harness.Fail) *harness.Fail {
	if strictStructure {
		return f
	}
	parts := strings.Split(f.Key, "|")
	st.class("layout:" + parts[len(parts)-1])
	return nil
}

func TestMain(m *testing.M) { harness.Main(m) }

func init() {
	harness.RegisterReplay("fraghistory", harness.Replayer(checkHistory))
	// development aid: VERIF_C05_NOAVOID=all or a comma-separated list of switch names
	if v := os.Getenv("VERIF_C05_NOAVOID"); v == "all" {
		avoidKnown = map[string]bool{}
	} else if v != "" {
		for _, name := range strings.Split(v, ",") {
			delete(avoidKnown, name)
		}
	}
}

func TestReplay(t *testing.T) { harness.ReplayPath(t) }

// avoidKnown lists confirmed library defects whose input class is skipped (and counted) so that the
// search continues behind them. Each name has a reproducer /verif/replay/C05/kf-<name>.json carrying
// "noAvoid": true.
var avoidKnown = map[string]bool{
	// Fragment.Encode/EncodeSW with OptimizeTrun calls OptimizeTfhdTrun on the first traf only and that
	// needs traf.Trun, which is nil when the first track of a multi-track fragment received no sample
	// (CreateMultiTrackFragment creates truns on demand): the whole fragment cannot be encoded
	// ("tfhd or trun box missing in traf"; a nil pointer dereference before /repo commit 4c51834).
	"optimize-first-traf-without-trun": false, // repaired in /repo (fix: 566c721)
	// A single-track fragment to which nothing was added cannot be encoded with OptimizeTrun:
	// OptimizeTfhdTrun returns "no samples in trun" (without optimisation the same fragment encodes and
	// decodes to zero samples).
	"optimize-empty-fragment": false, // repaired in /repo (fix: 566c721)
	// With OptimizeTrun a first trun of more than 1024 samples that agree in duration, size and flags and
	// have no composition offset is written without any per-sample field; DecodeTrun/DecodeTrunSR refuse
	// such a box ("sampleCount N is big but no sample data present"), so the library cannot read back
	// what it wrote.
	"optimize-over-1024-identical-samples": false, // repaired in /repo (fix: 396a347)
	// Fragment.AddSampleToTrack / AddFullSampleToTrack with a track id the fragment has no traf for: the
	// search loop leaves its loop variable at the last traf, the "no track with trackID" error is
	// unreachable and the sample is silently added to the last track of the fragment.
	"addsampletotrack-unknown-track": false, // repaired in /repo (fix: 5109e73)
}

// ---------------------------------------------------------------------------------------------
// the case

type trackDef struct {
	Timescale uint32 `json:"timescale"`
	Media     string `json:"media"` // video | audio | text | subtitle
	TrexDur   uint32 `json:"trexDur"`
	TrexSize  uint32 `json:"trexSize"`
	TrexFlags uint32 `json:"trexFlags"`
	Start     uint64 `json:"start"` // decode time of the first sample of the track
}

// sampleDef: the data bytes are a function of (Seed, Size) and of the running number of the sample, see sampleBytes.
type sampleDef struct {
	Size  int    `json:"size"`
	Seed  byte   `json:"seed"`
	Dur   uint32 `json:"dur"`
	Flags uint32 `json:"flags"`
	Cto   int32  `json:"cto"`
	Rep   int    `json:"rep,omitempty"` // the sample is added Rep more times (same values; the bytes follow the sample counter)
}

// extraDef is a non-media box: Kind emsg0 | emsg1 | prft0 | prft1 | free | skip | uuid | unknown | pssh.
type extraDef struct {
	Kind string           `json:"kind"`
	Data harness.HexBytes `json:"data,omitempty"`
}

// op kinds:
//
//	segment    new media segment (Styp; Piecewise = encode styp and fragments one by one instead of
//	           MediaSegment.Encode; Extra = top-level boxes written before the segment)
//	fragment   new fragment in the current segment (Multi, Tracks = track indices, Mode = full|meta|interval)
//	full       Fragment.AddFullSample            (single-track, mode full)
//	fullTrack  Fragment.AddFullSampleToTrack     (mode full)
//	meta       Fragment.AddSample                (single-track, mode meta)
//	metaMany   Fragment.AddSamples               (single-track, mode meta)
//	metaTrack  Fragment.AddSampleToTrack         (mode meta)
//	interval   Fragment.AddSampleInterval        (single-track, mode interval)
//	wrongTrack Fragment.AddSampleToTrack (mode meta) / AddFullSampleToTrack (mode full) with the id of a
//	           track (Track; index len(Tracks) = an id that is in no trak) the fragment was not created
//	           for: must return an error and leave the fragment as it is
//	emsg       Fragment.AddEmsg(Extra[0])
//	child      Fragment.AddChild(Extra[0])       (ends up after the mdat; not in mode meta)
//	moofChild  Fragment.Moof.AddChild(Extra[0])  (free | skip | uuid | unknown | pssh: a box inside the moof,
//	           behind whatever the moof holds at that point)
//	trafChild  Fragment.Moof.Trafs[i].AddChild(Extra[0]) for the traf of Track (free | skip | uuid | unknown:
//	           a box inside the traf, in front of the truns that are created later)
type op struct {
	Kind      string      `json:"kind"`
	Styp      bool        `json:"styp,omitempty"`
	Piecewise bool        `json:"piecewise,omitempty"`
	Multi     bool        `json:"multi,omitempty"`
	LargeMdat bool        `json:"largeMdat,omitempty"` // fragment: Mdat.LargeSize = true (64-bit size header, legal for any payload)
	Mode      string      `json:"mode,omitempty"`
	Tracks    []int       `json:"tracks,omitempty"`
	Track     int         `json:"track,omitempty"`
	Samples   []sampleDef `json:"samples,omitempty"`
	Extra     []extraDef  `json:"extra,omitempty"`
}

type historyCase struct {
	Tracks   []trackDef `json:"tracks"`
	SeqStart uint32     `json:"seqStart"`
	Ops      []op       `json:"ops"`
	Encoder  string     `json:"encoder,omitempty"` // "w" Encode(io.Writer) | "sw" EncodeSW(SliceWriter) | "" both
	// TrexDrop: before encoding, every tfhd default and every per-sample trun field whose values all equal the
	// track's trex default is switched off through the exported Flags fields (see dropTrexDefaults), so that the
	// reader has to fall back to trex. The library has no option that does this.
	TrexDrop bool `json:"trexDrop,omitempty"`
	NoAvoid  bool `json:"noAvoid,omitempty"`
	// SharedSrc: the sample batches given to AddSamples / AddSampleInterval are consecutive sub-slices of ONE
	// long slice with spare capacity behind each batch (the way a caller cuts the samples of a source track into
	// intervals), instead of a freshly allocated slice per call.
	SharedSrc bool `json:"sharedSrc,omitempty"`
	// EarlyOpt: the EncOptimize option of the encoded variant is set on every segment and fragment when it is
	// created (a caller that configures the object first and fills it afterwards), not only right before encoding.
	// Together with ops of kind "peek" (Size() of the fragment and its segment and Info between two additions)
	// this is the history "accessor called between two mutations".
	EarlyOpt bool `json:"earlyOpt,omitempty"`
}

// interpretOpt is the optimisation of the variant that interpret builds for (used with EarlyOpt only).
var interpretOpt mp4.EncOptimize

// sampleBytes: the bytes of the ctr-th sample added in the history (all tracks counted together). The counter enters
// every byte, so that neighbouring samples differ even when they are one byte long or repetitions of one sampleDef: a
// shift inside a run of otherwise identical samples, or data read from another track's run, shows in the bytes.
func sampleBytes(s sampleDef, ctr int) []byte {
	d := make([]byte, s.Size)
	k := byte(ctr*167) ^ byte(ctr>>8)*29
	for i := range d {
		d[i] = (s.Seed + byte(i*31) ^ byte(i>>8)) ^ k
	}
	return d
}

// independent serialisation of the extra boxes (ISO/IEC 14496-12 8.1.2 free/skip, 8.16.5 prft, 4.2 uuid;
// ISO/IEC 23009-1 5.10.3.3 emsg)
func extraBytes(x extraDef, refTrack uint32) ([]byte, error) {
	be32 := func(v uint32) []byte { return []byte{byte(v >> 24), byte(v >> 16), byte(v >> 8), byte(v)} }
	be64 := func(v uint64) []byte { return append(be32(uint32(v>>32)), be32(uint32(v))...) }
	cat := func(parts ...[]byte) []byte {
		var out []byte
		for _, p := range parts {
			out = append(out, p...)
		}
		return out
	}
	switch x.Kind {
	case "emsg0":
		return boxwalk.Make("emsg", cat(be32(0), []byte("urn:c05\x00"), []byte("v\x00"), be32(1000), be32(5), be32(7), be32(42), x.Data)), nil
	case "emsg1":
		return boxwalk.Make("emsg", cat(be32(1<<24), be32(1000), be64(1<<33), be32(7), be32(43), []byte("urn:c05\x00"), []byte("\x00"), x.Data)), nil
	case "prft0":
		return boxwalk.Make("prft", cat(be32(0), be32(refTrack), be64(0xe000000000000000), be32(1234))), nil
	case "prft1":
		return boxwalk.Make("prft", cat(be32(1<<24), be32(refTrack), be64(0xe000000000000000), be64(1<<33))), nil
	case "free", "skip":
		return boxwalk.Make(x.Kind, x.Data), nil
	case "uuid":
		u := []byte{0xf0, 0xf1, 0xf2, 0xf3, 0xf4, 0xf5, 0xf6, 0xf7, 0xf8, 0xf9, 0xfa, 0xfb, 0xfc, 0xfd, 0xfe, 0x05}
		return boxwalk.Make("uuid", cat(u, x.Data)), nil
	case "unknown":
		return boxwalk.Make("zc05", x.Data), nil
	case "pssh": // ISO/IEC 23001-7 8.1: version 0, SystemID, DataSize, Data
		sys := []byte{0xed, 0xef, 0x8b, 0xa9, 0x79, 0xd6, 0x4a, 0xce, 0xa3, 0xc8, 0x27, 0xdc, 0xd5, 0x1d, 0x21, 0xed}
		return boxwalk.Make("pssh", cat(be32(0), sys, be32(uint32(len(x.Data))), x.Data)), nil
	}
	return nil, fmt.Errorf("extra box kind %q", x.Kind)
}

func extraType(kind string) string {
	switch kind {
	case "emsg0", "emsg1":
		return "emsg"
	case "prft0", "prft1":
		return "prft"
	case "unknown":
		return "zc05"
	}
	return kind
}

func extraBox(x extraDef, refTrack uint32) (mp4.Box, []byte, error) {
	raw, err := extraBytes(x, refTrack)
	if err != nil {
		return nil, nil, err
	}
	b, err := mp4.DecodeBox(0, bytes.NewReader(raw))
	if err != nil {
		return nil, nil, fmt.Errorf("DecodeBox(%s): %v", x.Kind, err)
	}
	return b, raw, nil
}

// ---------------------------------------------------------------------------------------------
// interpretation

type modelSample struct {
	Data  []byte
	Dur   uint32
	Flags uint32
	Cto   int32
	Time  uint64
}

type builtFrag struct {
	frag     *mp4.Fragment
	mode     string
	lazyData []byte // mode meta: the sample data in write order
	multi    bool
	tracks   []int
	nSamples int
	perTrack map[int]int
	// expected top-level types of the fragment
	emsgs, post []string
	childEmsg   bool
	moofKids    [][]byte         // boxes added to the moof, in order (expected bytes)
	trafKids    map[int][][]byte // boxes added to the traf of a track index, in order
	runs        []int            // track index per trun, in write order (model)
	runBytes    []int            // total sample bytes per trun, parallel to runs
	firstRun    []sampleDef      // the samples of the first trun of the first track of the fragment
	nRuns       map[int]int
}

type builtSeg struct {
	seg       *mp4.MediaSegment
	pre       [][]byte
	preTypes  []string
	frags     []*builtFrag
	piecewise bool
}

type built struct {
	init  *mp4.InitSegment
	segs  []*builtSeg
	model [][]modelSample // per track
}

type stats struct {
	skipped  map[string]int64
	classes  map[string]bool
	variants int
}

func (st *stats) class(name string) {
	if st.classes == nil {
		st.classes = map[string]bool{}
	}
	st.classes[name] = true
}

func (c *historyCase) avoid(st *stats, name string) bool {
	if c.NoAvoid || !avoidKnown[name] {
		return false
	}
	if st.skipped == nil {
		st.skipped = map[string]int64{}
	}
	st.skipped[name]++
	return true
}

func bad(format string, a ...interface{}) *harness.Fail {
	return harness.Failf("harness|c05|bad-case", format, a...)
}

// interpret executes the history against the library and builds the model alongside.
func interpret(c *historyCase, st *stats) (*built, *harness.Fail) {
	if len(c.Tracks) == 0 || len(c.Tracks) > 8 {
		return nil, bad("%d tracks", len(c.Tracks))
	}
	b := &built{init: mp4.CreateEmptyInit(), model: make([][]modelSample, len(c.Tracks))}
	times := make([]uint64, len(c.Tracks))
	var srcPool []mp4.Sample // SharedSrc: the caller's long sample slice
	if c.SharedSrc {
		srcPool = make([]mp4.Sample, 0, 1<<16)
	}
	for i, td := range c.Tracks {
		b.init.AddEmptyTrack(td.Timescale, td.Media, "und")
		trak := b.init.Moov.Traks[i]
		var err error
		switch td.Media {
		case "audio":
			err = trak.SetAACDescriptor(aac.AAClc, 48000)
		case "text":
			err = trak.SetWvttDescriptor("")
		case "subtitle":
			err = trak.SetStppDescriptor("", "", "")
		case "video": // the sample description plays no role here; stsd stays empty
		default:
			return nil, bad("media type %q", td.Media)
		}
		if err != nil {
			return nil, harness.Failf("C05|init|descriptor error", "%v", err)
		}
		if trak.Tkhd.TrackID != uint32(i+1) || len(b.init.Moov.Mvex.Trexs) != i+1 || b.init.Moov.Mvex.Trexs[i].TrackID != uint32(i+1) {
			return nil, harness.Failf("C05|init|track/trex ids", "track %d", i)
		}
		x := b.init.Moov.Mvex.Trexs[i]
		x.DefaultSampleDuration, x.DefaultSampleSize, x.DefaultSampleFlags = td.TrexDur, td.TrexSize, td.TrexFlags
		times[i] = td.Start
	}
	id := func(ti int) uint32 { return uint32(ti + 1) }
	seq := c.SeqStart
	ctr := 0 // running number of the sample being added (all tracks), see sampleBytes
	var cs *builtSeg
	var cf *builtFrag
	for oi, o := range c.Ops {
		where := fmt.Sprintf("op %d (%s)", oi, o.Kind)
		switch o.Kind {
		case "segment":
			cs = &builtSeg{piecewise: o.Piecewise}
			if o.Styp {
				cs.seg = mp4.NewMediaSegment()
			} else {
				cs.seg = mp4.NewMediaSegmentWithoutStyp()
			}
			for _, x := range o.Extra {
				if extraType(x.Kind) == "emsg" {
					return nil, bad("%s: emsg as a top-level box before a segment", where)
				}
				if extraType(x.Kind) == "prft" && o.Styp {
					return nil, bad("%s: prft as a top-level box in front of a styp box", where)
				}
				raw, err := extraBytes(x, 1)
				if err != nil {
					return nil, bad("%s: %v", where, err)
				}
				cs.pre = append(cs.pre, raw)
				cs.preTypes = append(cs.preTypes, extraType(x.Kind))
			}
			b.segs = append(b.segs, cs)
			cf = nil
			continue
		case "fragment":
			if cs == nil {
				return nil, bad("%s: no segment", where)
			}
			if len(o.Tracks) == 0 || (!o.Multi && len(o.Tracks) != 1) {
				return nil, bad("%s: tracks %v", where, o.Tracks)
			}
			seen := map[int]bool{}
			var ids []uint32
			for _, ti := range o.Tracks {
				if ti < 0 || ti >= len(c.Tracks) || seen[ti] {
					return nil, bad("%s: tracks %v", where, o.Tracks)
				}
				seen[ti] = true
				ids = append(ids, id(ti))
			}
			switch {
			case o.Mode == "full" || o.Mode == "meta":
			case o.Mode == "interval" && !o.Multi:
			default:
				return nil, bad("%s: mode %q multi %v", where, o.Mode, o.Multi)
			}
			cf = &builtFrag{mode: o.Mode, multi: o.Multi, tracks: o.Tracks, perTrack: map[int]int{}, nRuns: map[int]int{}, trafKids: map[int][][]byte{}}
			var err error
			if o.Multi {
				cf.frag, err = mp4.CreateMultiTrackFragment(seq, ids)
			} else {
				cf.frag, err = mp4.CreateFragment(seq, ids[0])
			}
			if err != nil {
				return nil, harness.Failf("C05|CreateFragment|error", "%s: %v", where, err)
			}
			seq++
			if o.LargeMdat {
				cf.frag.Mdat.LargeSize = true
			}
			if c.EarlyOpt {
				cf.frag.EncOptimize = interpretOpt
				cs.seg.EncOptimize = interpretOpt
			}
			cs.seg.AddFragment(cf.frag)
			cs.frags = append(cs.frags, cf)
			if o.Mode == "meta" {
				cs.piecewise = true
			}
			continue
		}
		if cf == nil {
			return nil, bad("%s: no fragment", where)
		}
		if o.Kind == "peek" {
			// accessors between two additions: they must leave the fragment as it is
			_ = cf.frag.Size()
			_ = cs.seg.Size()
			var sink bytes.Buffer
			_ = cf.frag.Info(&sink, "all:1", "", "  ")
			st.class("accessors-between-additions")
			continue
		}
		switch o.Kind {
		case "emsg", "child":
			if len(o.Extra) != 1 {
				return nil, bad("%s: needs one box", where)
			}
			x := o.Extra[0]
			box, _, err := extraBox(x, id(cf.tracks[0]))
			if err != nil {
				return nil, bad("%s: %v", where, err)
			}
			if o.Kind == "emsg" {
				e, ok := box.(*mp4.EmsgBox)
				if !ok || cf.childEmsg {
					return nil, bad("%s: AddEmsg with %s / after an emsg was appended with AddChild", where, x.Kind)
				}
				cf.frag.AddEmsg(e)
				cf.emsgs = append(cf.emsgs, "emsg")
			} else {
				if cf.mode == "meta" {
					return nil, bad("%s: box after a lazy mdat", where)
				}
				cf.frag.AddChild(box)
				cf.post = append(cf.post, extraType(x.Kind))
				if extraType(x.Kind) == "emsg" {
					cf.childEmsg = true
				}
			}
			continue
		}
		if o.Kind == "moofChild" || o.Kind == "trafChild" {
			if len(o.Extra) != 1 {
				return nil, bad("%s: needs one box", where)
			}
			x := o.Extra[0]
			switch t := extraType(x.Kind); {
			case t == "emsg" || t == "prft":
				return nil, bad("%s: %s inside a moof", where, t)
			case t == "pssh" && o.Kind == "trafChild":
				return nil, bad("%s: pssh inside a traf", where)
			}
			box, raw, err := extraBox(x, id(cf.tracks[0]))
			if err != nil {
				return nil, bad("%s: %v", where, err)
			}
			if o.Kind == "moofChild" {
				if err := cf.frag.Moof.AddChild(box); err != nil {
					return nil, harness.Failf("C05|MoofBox.AddChild|error", "%s: %v", where, err)
				}
				cf.moofKids = append(cf.moofKids, raw)
				continue
			}
			idx := -1
			for i, k := range cf.tracks {
				if k == o.Track {
					idx = i
				}
			}
			if idx < 0 || idx >= len(cf.frag.Moof.Trafs) {
				return nil, bad("%s: track %d has no traf in the fragment %v", where, o.Track, cf.tracks)
			}
			if err := cf.frag.Moof.Trafs[idx].AddChild(box); err != nil {
				return nil, harness.Failf("C05|TrafBox.AddChild|error", "%s: %v", where, err)
			}
			cf.trafKids[o.Track] = append(cf.trafKids[o.Track], raw)
			continue
		}
		if o.Kind == "wrongTrack" {
			for _, k := range cf.tracks {
				if k == o.Track {
					return nil, bad("%s: track %d is in the fragment", where, o.Track)
				}
			}
			if o.Track < 0 || o.Track > len(c.Tracks) || len(o.Samples) != 1 || cf.mode == "interval" {
				return nil, bad("%s: track %d, %d samples, mode %s", where, o.Track, len(o.Samples), cf.mode)
			}
			if c.avoid(st, "addsampletotrack-unknown-track") {
				continue
			}
			sd := o.Samples[0]
			smp := mp4.Sample{Flags: sd.Flags, Dur: sd.Dur, Size: uint32(sd.Size), CompositionTimeOffset: sd.Cto}
			var err error
			api := "AddSampleToTrack"
			if cf.mode == "meta" {
				err = cf.frag.AddSampleToTrack(smp, id(o.Track), 12345)
			} else {
				api = "AddFullSampleToTrack"
				err = cf.frag.AddFullSampleToTrack(mp4.FullSample{Sample: smp, DecodeTime: 12345, Data: sampleBytes(sd, ctr)}, id(o.Track))
			}
			if err == nil {
				return nil, harness.Failf("C05|Fragment."+api+"|no error for a track id the fragment was not created for",
					"%s: fragment created for track ids %v, sample added with track id %d: no error", where, idsOf(cf.tracks), id(o.Track))
			}
			continue
		}
		// sample additions
		ti := o.Track
		inFrag := false
		for _, k := range cf.tracks {
			inFrag = inFrag || k == ti
		}
		if !inFrag || len(o.Samples) == 0 {
			return nil, bad("%s: track %d not in fragment %v or no samples", where, ti, cf.tracks)
		}
		single := map[string]bool{"full": true, "meta": true, "metaMany": true, "interval": true}
		if single[o.Kind] && cf.multi {
			return nil, bad("%s: single-track call on a multi-track fragment", where)
		}
		wantMode := map[string]string{"full": "full", "fullTrack": "full", "meta": "meta", "metaMany": "meta", "metaTrack": "meta", "interval": "interval"}[o.Kind]
		if wantMode == "" || wantMode != cf.mode {
			return nil, bad("%s: in a fragment of mode %q", where, cf.mode)
		}
		if (o.Kind != "metaMany" && o.Kind != "interval") && len(o.Samples) != 1 {
			return nil, bad("%s: %d samples", where, len(o.Samples))
		}
		calls := 1 // the single-sample entry points are called once per repetition
		if o.Kind != "metaMany" && o.Kind != "interval" {
			calls = o.Samples[0].Rep + 1
		}
		t0 := times[ti]
		var ss []mp4.Sample
		var all []byte
		var expanded []sampleDef
		for _, sd := range o.Samples {
			if sd.Size < 0 || sd.Size > 1<<20 || sd.Rep < 0 || sd.Rep > 5000 || (sd.Rep+1)*sd.Size > 1<<22 {
				return nil, bad("%s: sample size %d rep %d", where, sd.Size, sd.Rep)
			}
			for r := 0; r <= sd.Rep; r++ {
				expanded = append(expanded, sd)
			}
		}
		for _, sd := range expanded {
			d := sampleBytes(sd, ctr)
			ctr++
			b.model[ti] = append(b.model[ti], modelSample{Data: d, Dur: sd.Dur, Flags: sd.Flags, Cto: sd.Cto, Time: times[ti]})
			times[ti] += uint64(sd.Dur)
			ss = append(ss, mp4.Sample{Flags: sd.Flags, Dur: sd.Dur, Size: uint32(sd.Size), CompositionTimeOffset: sd.Cto})
			all = append(all, d...)
		}
		if c.SharedSrc && (o.Kind == "metaMany" || o.Kind == "interval") && len(srcPool)+len(ss) <= cap(srcPool) {
			from := len(srcPool)
			srcPool = append(srcPool, ss...)
			ss = srcPool[from:len(srcPool)] // capacity reaches to the end of the caller's slice
			st.class("batch-is-sub-slice-of-a-longer-caller-slice")
		}
		if n := len(cf.runs); n == 0 || cf.runs[n-1] != ti {
			cf.runs = append(cf.runs, ti)
			cf.runBytes = append(cf.runBytes, 0)
			cf.nRuns[ti]++
		}
		cf.runBytes[len(cf.runBytes)-1] += len(all)
		if ti == cf.tracks[0] && cf.nRuns[ti] == 1 {
			cf.firstRun = append(cf.firstRun, expanded...)
		}
		cf.nSamples += len(ss)
		cf.perTrack[ti] += len(ss)
		var err error
		one := len(all) / calls
		for k := 0; k < calls && err == nil; k++ {
			d := all[k*one : (k+1)*one]
			switch o.Kind {
			case "full":
				cf.frag.AddFullSample(mp4.FullSample{Sample: ss[k], DecodeTime: t0, Data: d})
			case "fullTrack":
				err = cf.frag.AddFullSampleToTrack(mp4.FullSample{Sample: ss[k], DecodeTime: t0, Data: d}, id(ti))
			case "meta":
				cf.frag.AddSample(ss[k], t0)
				cf.lazyData = append(cf.lazyData, d...)
			case "metaMany":
				cf.frag.AddSamples(ss, t0)
				cf.lazyData = append(cf.lazyData, all...)
			case "metaTrack":
				err = cf.frag.AddSampleToTrack(ss[k], id(ti), t0)
				cf.lazyData = append(cf.lazyData, d...)
			case "interval":
				err = cf.frag.AddSampleInterval(mp4.SampleInterval{FirstDecodeTime: t0, Samples: ss, OffsetInMdat: 0, Size: uint32(len(all)), Data: all})
			}
			t0 += uint64(ss[k].Dur)
		}
		if err != nil {
			return nil, harness.Failf("C05|Fragment."+apiName[o.Kind]+"|error on valid addition", "%s: %v", where, err)
		}
	}
	return b, nil
}

func idsOf(tracks []int) []uint32 {
	out := make([]uint32, len(tracks))
	for i, t := range tracks {
		out[i] = uint32(t + 1)
	}
	return out
}

var apiName = map[string]string{"full": "AddFullSample", "fullTrack": "AddFullSampleToTrack", "meta": "AddSample", "metaMany": "AddSamples",
	"metaTrack": "AddSampleToTrack", "interval": "AddSampleInterval"}

// ---------------------------------------------------------------------------------------------
// encoding

type sink interface {
	box(enc func() error, encSW func(sw bits.SliceWriter) error) error
	raw(p []byte)
	bytes() []byte
}

type wSink struct{ buf bytes.Buffer }

func (s *wSink) box(enc func() error, _ func(bits.SliceWriter) error) error { return enc() }
func (s *wSink) raw(p []byte)                                               { s.buf.Write(p) }
func (s *wSink) bytes() []byte                                              { return s.buf.Bytes() }

type swSink struct{ sw *bits.FixedSliceWriter }

func (s *swSink) box(_ func() error, encSW func(bits.SliceWriter) error) error { return encSW(s.sw) }
func (s *swSink) raw(p []byte)                                                 { s.sw.WriteBytes(p) }
func (s *swSink) bytes() []byte                                                { return s.sw.Bytes() }

// encodeAll writes init ++ segments. useSW selects the SliceWriter encoders.
func encodeAll(b *built, useSW bool, opt mp4.EncOptimize) ([]byte, *harness.Fail) {
	var out sink
	name := "Encode"
	if useSW {
		name = "EncodeSW"
		size := b.init.Size()
		for _, s := range b.segs {
			size += s.seg.Size()
			for _, p := range s.pre {
				size += uint64(len(p))
			}
		}
		out = &swSink{sw: bits.NewFixedSliceWriter(int(size) + 64)}
	} else {
		out = &wSink{}
	}
	w := func() *bytes.Buffer { return &out.(*wSink).buf }
	if err := out.box(func() error { return b.init.Encode(w()) }, b.init.EncodeSW); err != nil {
		return nil, harness.Failf("C05|InitSegment."+name+"|error", "%v", err)
	}
	for si, s := range b.segs {
		for _, p := range s.pre {
			out.raw(p)
		}
		if !s.piecewise {
			s.seg.EncOptimize = opt
			if err := out.box(func() error { return s.seg.Encode(w()) }, s.seg.EncodeSW); err != nil {
				return nil, harness.Failf("C05|MediaSegment."+name+"|error", "segment %d: %v", si, err)
			}
			continue
		}
		if s.seg.Styp != nil {
			if err := out.box(func() error { return s.seg.Styp.Encode(w()) }, s.seg.Styp.EncodeSW); err != nil {
				return nil, harness.Failf("C05|StypBox."+name+"|error", "segment %d: %v", si, err)
			}
		}
		for fi, f := range s.frags {
			f.frag.EncOptimize = opt
			if err := out.box(func() error { return f.frag.Encode(w()) }, f.frag.EncodeSW); err != nil {
				return nil, harness.Failf("C05|Fragment."+name+"|error", "segment %d fragment %d: %v", si, fi, err)
			}
			if f.mode == "meta" {
				out.raw(f.lazyData) // the documented lazy mechanism: the data follows the encoded mdat header
			}
		}
	}
	if sw, ok := out.(*swSink); ok {
		if err := sw.sw.AccError(); err != nil {
			return nil, harness.Failf("C05|EncodeSW|accumulated error", "%v", err)
		}
	}
	return out.bytes(), nil
}

// dropTrexDefaults rewrites the presence flags of the built fragments so that values equal to the trex defaults of the
// track are stored nowhere in the fragment (ISO/IEC 14496-12 8.8.7/8.8.8: a value absent from trun comes from tfhd, a
// value absent from tfhd comes from trex). With OptimizeTrun the library's own optimisation runs first (as
// Fragment.Encode would run it), so that its tfhd defaults are candidates too. The sample values are untouched: what
// must be read back stays the same.
func dropTrexDefaults(b *built, opt mp4.EncOptimize, st *stats) *harness.Fail {
	const (
		tfhdDur, tfhdSize, tfhdFlags        = 0x08, 0x10, 0x20
		trunDur, trunSize, trunFlags        = 0x100, 0x200, 0x400
		trunCto, trunFirst           uint32 = 0x800, 0x004
	)
	for _, s := range b.segs {
		for _, f := range s.frags {
			if opt&mp4.OptimizeTrun != 0 && f.frag.Moof.Traf != nil {
				if err := f.frag.Moof.Traf.OptimizeTfhdTrun(); err != nil {
					return harness.Failf("C05|TrafBox.OptimizeTfhdTrun|error", "%v", err)
				}
			}
			for _, tf := range f.frag.Moof.Trafs {
				ti := int(tf.Tfhd.TrackID) - 1
				if ti < 0 || ti >= len(b.init.Moov.Mvex.Trexs) {
					return bad("traf with track id %d", tf.Tfhd.TrackID)
				}
				trex := b.init.Moov.Mvex.Trexs[ti]
				for _, tr := range tf.Truns {
					n := len(tr.Samples)
					if n == 0 {
						continue
					}
					dDur, dSize, dFlags := trex.DefaultSampleDuration, trex.DefaultSampleSize, trex.DefaultSampleFlags
					if tf.Tfhd.HasDefaultSampleDuration() {
						dDur = tf.Tfhd.DefaultSampleDuration
					}
					if tf.Tfhd.HasDefaultSampleSize() {
						dSize = tf.Tfhd.DefaultSampleSize
					}
					if tf.Tfhd.HasDefaultSampleFlags() {
						dFlags = tf.Tfhd.DefaultSampleFlags
					}
					allDur, allSize, allFlags, restFlags := true, true, true, true
					for i, sm := range tr.Samples {
						allDur = allDur && sm.Dur == dDur
						allSize = allSize && sm.Size == dSize
						allFlags = allFlags && sm.Flags == dFlags
						restFlags = restFlags && (i == 0 || sm.Flags == dFlags)
					}
					flags := tr.Flags
					if tr.HasSampleDuration() && allDur {
						flags &^= trunDur
					}
					if tr.HasSampleFlags() && allFlags {
						flags &^= trunFlags
					} else if tr.HasSampleFlags() && restFlags && !tr.HasFirstSampleFlags() {
						tr.SetFirstSampleFlags(tr.Samples[0].Flags)
						flags = (flags | trunFirst) &^ trunFlags
					}
					// the trun decoder admits at most 1024 samples without any per-sample field: keep the sizes then
					if tr.HasSampleSize() && allSize && (n <= 1024 || flags&(trunDur|trunFlags|trunCto) != 0) {
						flags &^= trunSize
					}
					tr.Flags = flags
				}
				if tf.Tfhd.HasDefaultSampleDuration() && tf.Tfhd.DefaultSampleDuration == trex.DefaultSampleDuration {
					tf.Tfhd.Flags &^= tfhdDur
				}
				if tf.Tfhd.HasDefaultSampleSize() && tf.Tfhd.DefaultSampleSize == trex.DefaultSampleSize {
					tf.Tfhd.Flags &^= tfhdSize
				}
				if tf.Tfhd.HasDefaultSampleFlags() && tf.Tfhd.DefaultSampleFlags == trex.DefaultSampleFlags {
					tf.Tfhd.Flags &^= tfhdFlags
				}
				for _, tr := range tf.Truns {
					if len(tr.Samples) == 0 {
						continue
					}
					if !tr.HasSampleDuration() && !tf.Tfhd.HasDefaultSampleDuration() {
						st.class("trex-fallback:duration")
					}
					if !tr.HasSampleSize() && !tf.Tfhd.HasDefaultSampleSize() {
						st.class("trex-fallback:size")
					}
					if !tr.HasSampleFlags() && !tf.Tfhd.HasDefaultSampleFlags() && (len(tr.Samples) > 1 || !tr.HasFirstSampleFlags()) {
						st.class("trex-fallback:flags")
					}
				}
			}
		}
	}
	return nil
}

// ---------------------------------------------------------------------------------------------
// the oracle

func checkHistory(c historyCase) *harness.Fail {
	var st stats
	return evalHistory(&c, &st)
}

func cmpLib(what, api string, want []modelSample, got []mp4.FullSample) *harness.Fail {
	if len(want) != len(got) {
		return harness.Failf("C05|"+api+"|number of samples differs", "%s: %d samples read back, %d added", what, len(got), len(want))
	}
	for i := range want {
		w, g := &want[i], &got[i]
		var field string
		switch {
		case g.Size != uint32(len(w.Data)):
			field = "size"
		case !bytes.Equal(g.Data, w.Data):
			field = "bytes"
		case g.Dur != w.Dur:
			field = "duration"
		case g.Flags != w.Flags:
			field = "flags"
		case g.CompositionTimeOffset != w.Cto:
			field = "composition offset"
		case g.DecodeTime != w.Time:
			field = "decode time"
		default:
			continue
		}
		return harness.Failf("C05|"+api+"|sample "+field+" differs", "%s sample %d: read dur=%d size=%d flags=%#x cto=%d time=%d data=%s; added dur=%d size=%d flags=%#x cto=%d time=%d data=%s",
			what, i, g.Dur, g.Size, g.Flags, g.CompositionTimeOffset, g.DecodeTime, harness.HexTrunc(g.Data, 24),
			w.Dur, len(w.Data), w.Flags, w.Cto, w.Time, harness.HexTrunc(w.Data, 24))
	}
	return nil
}

func cmpRef(what string, want []modelSample, got []fragbuild.PSample) *harness.Fail {
	const api = "encoded bytes (independent reader)"
	if len(want) != len(got) {
		return harness.Failf("C05|"+api+"|number of samples differs", "%s: %d samples in the file, %d added", what, len(got), len(want))
	}
	for i := range want {
		w, g := &want[i], &got[i]
		var field string
		switch {
		case g.Size != uint32(len(w.Data)):
			field = "size"
		case !bytes.Equal(g.Data, w.Data):
			field = "bytes"
		case g.Dur != w.Dur:
			field = "duration"
		case g.Flags != w.Flags:
			field = "flags"
		case int32(g.Cto) != w.Cto:
			field = "composition offset"
		case g.DecodeTime != w.Time:
			field = "decode time"
		default:
			continue
		}
		return harness.Failf("C05|"+api+"|sample "+field+" differs", "%s sample %d: file dur=%d size=%d flags=%#x cto=%d time=%d offset=%d data=%s; added dur=%d size=%d flags=%#x cto=%d time=%d data=%s",
			what, i, g.Dur, g.Size, g.Flags, g.Cto, g.DecodeTime, g.Offset, harness.HexTrunc(g.Data, 24),
			w.Dur, len(w.Data), w.Flags, w.Cto, w.Time, harness.HexTrunc(w.Data, 24))
	}
	return nil
}

func evalHistory(c *historyCase, st *stats) *harness.Fail {
	// static classes of the history that decide about the known-defect switches
	interpretOpt = mp4.OptimizeNone // the probe is used for the first variant, which does not optimise
	probe, fail := interpret(c, st)
	if fail != nil {
		return fail
	}
	firstTrafEmpty, emptySingle, bigBare := false, false, false
	nFrags := 0
	for _, s := range probe.segs {
		for _, f := range s.frags {
			nFrags++
			if f.multi && f.perTrack[f.tracks[0]] == 0 {
				firstTrafEmpty = true
			}
			if !f.multi && f.nSamples == 0 {
				emptySingle = true
			}
			if r := f.firstRun; len(r) > 1024 {
				same := true
				for i, sd := range r {
					same = same && sd.Dur == r[0].Dur && sd.Size == r[0].Size && (i == 0 || sd.Flags == r[1].Flags) && sd.Cto == 0
				}
				bigBare = bigBare || same
			}
		}
	}
	skipOpt := false
	if firstTrafEmpty && c.avoid(st, "optimize-first-traf-without-trun") {
		skipOpt = true
	}
	if emptySingle && c.avoid(st, "optimize-empty-fragment") {
		skipOpt = true
	}
	if bigBare && c.avoid(st, "optimize-over-1024-identical-samples") {
		skipOpt = true
	}

	encoders := []bool{false, true}
	switch c.Encoder {
	case "w":
		encoders = []bool{false}
	case "sw":
		encoders = []bool{true}
	case "":
	default:
		return bad("encoder %q", c.Encoder)
	}
	for _, useSW := range encoders {
		for _, opt := range []mp4.EncOptimize{mp4.OptimizeNone, mp4.OptimizeTrun} {
			if opt != mp4.OptimizeNone && skipOpt {
				continue
			}
			vname := map[bool]string{false: "Encode", true: "EncodeSW"}[useSW] + "/" + opt.String()
			b := probe
			if b == nil {
				interpretOpt = opt
				if b, fail = interpret(c, &stats{}); fail != nil {
					return fail
				}
			}
			probe = nil // fresh structures per variant: encoding with optimisation mutates tfhd/trun
			if c.TrexDrop {
				vname += "/trex-drop"
				if fail := dropTrexDefaults(b, opt, st); fail != nil {
					return fail
				}
			}
			encOpt := opt
			if c.TrexDrop {
				// the presence flags were rewritten by hand above (the library's own optimisation of the first traf
				// included): the encoders must not optimise once more on top of that state, which no sequence of API
				// calls produces (a library that optimises every traf would meet truns whose fields are already gone)
				encOpt = mp4.OptimizeNone
			}
			file, fail := encodeAll(b, useSW, encOpt)
			if fail != nil {
				fail.Msg = vname + ": " + fail.Msg
				switch {
				case strings.Contains(fail.Msg, "no samples in trun"):
					fail.Key = "C05|Fragment.Encode|error for a fragment without samples (OptimizeTrun)"
				case strings.Contains(fail.Msg, "trun box missing in traf"):
					fail.Key = "C05|Fragment.Encode|error when the first track of a multi-track fragment is idle (OptimizeTrun)"
				}
				return fail
			}
			// the same structures encoded once more (the other encoder every other time): the same bytes; what the
			// first encoding did to them (optimisation rewrites tfhd and trun) must not show in the second
			if !c.TrexDrop {
				again, fail2 := encodeAll(b, useSW != (len(c.Ops)%2 == 0), encOpt)
				if fail2 != nil {
					fail2.Msg = vname + " (second encoding of the same structures): " + fail2.Msg
					return fail2
				}
				if !bytes.Equal(again, file) {
					d := 0
					for d < len(again) && d < len(file) && again[d] == file[d] {
						d++
					}
					return harness.Failf("C05|second encoding of the same structures|bytes differ from the first encoding", "%s: %d bytes then %d bytes, first difference at %d", vname, len(file), len(again), d)
				}
			}
			st.variants++
			if opt != mp4.OptimizeNone {
				for _, s := range b.segs {
					for _, f := range s.frags {
						for _, tf := range f.frag.Moof.Trafs {
							if tf.Tfhd.HasDefaultSampleDuration() {
								st.class("optimised:tfhd-default-duration")
							}
							if tf.Tfhd.HasDefaultSampleSize() {
								st.class("optimised:tfhd-default-size")
							}
							if tf.Tfhd.HasDefaultSampleFlags() {
								st.class("optimised:tfhd-default-flags")
							}
							for _, tr := range tf.Truns {
								if tr.HasFirstSampleFlags() {
									st.class("optimised:first-sample-flags")
								}
								if !tr.HasSampleCompositionTimeOffset() {
									st.class("optimised:cto-removed")
								}
								if tr.Flags != 0xf01 {
									st.class("optimised:some-flag-changed")
								}
							}
						}
					}
				}
			}
			if fail := checkEncoded(c, b, file, nFrags, opt, st); fail != nil {
				fail.Msg = vname + ": " + fail.Msg
				return fail
			}
		}
	}
	return nil
}

func checkEncoded(c *historyCase, b *built, file []byte, nFrags int, opt mp4.EncOptimize, st *stats) *harness.Fail {
	nT := len(c.Tracks)
	// (2) the independent reader first: is the file what the history says?
	p, err := fragbuild.Read(file)
	if err != nil {
		return harness.Failf("C05|encoded bytes (independent reader)|file not consistent", "%v", err)
	}
	// top-level structure
	want := []string{"ftyp", "moov"}
	for _, s := range b.segs {
		want = append(want, s.preTypes...)
		if s.seg.Styp != nil {
			want = append(want, "styp")
		}
		for _, f := range s.frags {
			want = append(want, f.emsgs...)
			want = append(want, "moof", "mdat")
			want = append(want, f.post...)
		}
	}
	got := make([]string, len(p.Boxes))
	for i, bx := range p.Boxes {
		got[i] = bx.Type
	}
	if strings.Join(got, " ") != strings.Join(want, " ") {
		return harness.Failf("C05|encoded bytes (independent reader)|top-level box sequence differs", "file has %v, history gives %v", got, want)
	}
	if len(p.Moofs) != nFrags {
		return harness.Failf("C05|encoded bytes (independent reader)|number of fragments differs", "%d moofs, %d fragments", len(p.Moofs), nFrags)
	}
	// per fragment: sequence number, trafs, truns in write order, data tiles the mdat payload
	k := 0
	seq := c.SeqStart
	for _, s := range b.segs {
		for _, f := range s.frags {
			m := &p.Moofs[k]
			what := fmt.Sprintf("fragment %d", k)
			k++
			layoutOK := true
			lay := func(key, format string, a ...interface{}) *harness.Fail {
				layoutOK = false
				return layout(st, harness.Failf("C05|encoded bytes (independent reader)|"+key, format, a...))
			}
			if m.Seq != seq {
				if fl := lay("sequence number differs", "%s: %d, created with %d", what, m.Seq, seq); fl != nil {
					return fl
				}
			}
			seq++
			if len(m.Trafs) != len(f.tracks) {
				if fl := lay("number of trafs differs", "%s: %d trafs for tracks %v", what, len(m.Trafs), f.tracks); fl != nil {
					return fl
				}
			}
			// boxes added inside the moof and the trafs: all there, in order, byte for byte
			sameBoxes := func(got []fragbuild.PBox, want [][]byte) bool {
				if len(got) != len(want) {
					return false
				}
				for i := range got {
					if !bytes.Equal(got[i].Raw, want[i]) {
						return false
					}
				}
				return true
			}
			if !sameBoxes(m.Other, f.moofKids) {
				return harness.Failf("C05|encoded bytes (independent reader)|boxes added to the moof differ", "%s: moof children %v, %d boxes added", what, m.ChildOrder, len(f.moofKids))
			}
			type run struct {
				start, size uint64
				track       int
			}
			var runs []run
			inFrag := map[int]bool{}
			for _, ti := range f.tracks {
				inFrag[ti] = true
			}
			seenTraf := map[int]bool{}
			for i, tf := range m.Trafs {
				ti := int(tf.Tfhd.TrackID) - 1
				if !inFrag[ti] {
					return harness.Failf("C05|encoded bytes (independent reader)|traf of a track the fragment was not created for", "%s: traf %d has track id %d, fragment tracks %v", what, i, tf.Tfhd.TrackID, f.tracks)
				}
				if i >= len(f.tracks) || f.tracks[i] != ti {
					if fl := lay("traf order differs", "%s: traf %d has track id %d, tracks in creation order %v", what, i, tf.Tfhd.TrackID, f.tracks); fl != nil {
						return fl
					}
				}
				// the boxes added to the traf of a track: all in the FIRST traf of that track, in order, byte for byte
				if !seenTraf[ti] && !sameBoxes(tf.Other, f.trafKids[ti]) {
					return harness.Failf("C05|encoded bytes (independent reader)|boxes added to a traf differ", "%s traf %d: children %v, %d boxes added", what, i, tf.ChildOrder, len(f.trafKids[ti]))
				}
				seenTraf[ti] = true
				for _, tr := range tf.Truns {
					var n uint64
					for _, sm := range tr.Samples {
						n += uint64(sm.Size)
					}
					if tr.SampleCount > 0 {
						runs = append(runs, run{tr.Start, n, ti})
					}
				}
			}
			for _, ti := range f.tracks {
				if !seenTraf[ti] && len(f.trafKids[ti]) > 0 {
					return harness.Failf("C05|encoded bytes (independent reader)|boxes added to a traf differ", "%s: no traf for track index %d, to which %d boxes were added", what, ti, len(f.trafKids[ti]))
				}
			}
			sort.SliceStable(runs, func(i, j int) bool { return runs[i].start < runs[j].start })
			if m.Mdat == nil {
				return harness.Failf("C05|encoded bytes (independent reader)|moof without mdat", "%s", what)
			}
			// 8-byte mdat header unless the fragment was given Mdat.LargeSize (header with the 64-bit size field)
			pos := m.Mdat.Offset + 8
			if int(m.Mdat.Offset)+4 <= len(file) && file[m.Mdat.Offset] == 0 && file[m.Mdat.Offset+1] == 0 && file[m.Mdat.Offset+2] == 0 && file[m.Mdat.Offset+3] == 1 {
				pos = m.Mdat.Offset + 16
			}
			var order []int
			for _, r := range runs {
				if r.size > 0 && r.start != pos {
					if fl := lay("run data does not tile the mdat payload in write order", "%s: run of track index %d starts at %d, expected %d", what, r.track, r.start, pos); fl != nil {
						return fl
					}
					break
				}
				pos += r.size
				if r.size > 0 {
					order = append(order, r.track)
				}
			}
			if layoutOK && pos != m.Mdat.Offset+m.Mdat.Size {
				if fl := lay("run data does not fill the mdat payload", "%s: runs end at %d, mdat at %d", what, pos, m.Mdat.Offset+m.Mdat.Size); fl != nil {
					return fl
				}
			}
			// The data of the runs lies in the mdat in the order in which the runs were started (TrunBox write order
			// number / Fragment next-trun counter, "let that happen in write order" in CreateMultiTrackFragment; in mode
			// meta the caller writes the data in call order). Runs without data bytes have no position.
			var wantOrder []int
			for i, ti := range f.runs {
				if f.runBytes[i] > 0 {
					wantOrder = append(wantOrder, ti)
				}
			}
			if layoutOK && fmt.Sprint(order) != fmt.Sprint(wantOrder) {
				if fl := lay("run write order differs", "%s: runs lie in the mdat in track-index order %v, they were started in order %v", what, order, wantOrder); fl != nil {
					return fl
				}
			}
			if layoutOK {
				if fail := checkOptimised(c, f, m, what, opt, st); fail != nil {
					if fl := layout(st, fail); fl != nil {
						return fl
					}
				}
			}
		}
	}
	for ti := 0; ti < nT; ti++ {
		if fail := cmpRef(fmt.Sprintf("track index %d", ti), b.model[ti], p.TrackSamples(uint32(ti+1))); fail != nil {
			return fail
		}
		x := p.Track(uint32(ti + 1))
		td := c.Tracks[ti]
		if x == nil || x.Trex == nil || x.Timescale != td.Timescale || x.Trex.Dur != td.TrexDur || x.Trex.Size != td.TrexSize || x.Trex.Flags != td.TrexFlags {
			return harness.Failf("C05|encoded bytes (independent reader)|init track differs", "track index %d: %+v", ti, x)
		}
	}
	// (1) the library's decoders
	decErr := func(api string, err error) *harness.Fail {
		if strings.Contains(err.Error(), "is big but no sample data present") {
			return harness.Failf("C05|"+api+"|decoder refuses the optimised trun of more than 1024 identical samples", "%v", err)
		}
		return harness.Failf("C05|"+api+"|error", "%v", err)
	}
	f1, err := mp4.DecodeFile(bytes.NewReader(file))
	if err != nil {
		return decErr("DecodeFile", err)
	}
	f2, err := mp4.DecodeFileSR(bits.NewFixedSliceReader(file))
	if err != nil {
		return decErr("DecodeFileSR", err)
	}
	for _, d := range []struct {
		f   *mp4.File
		api string
	}{{f1, "DecodeFile"}, {f2, "DecodeFileSR"}} {
		if !d.f.IsFragmented() || d.f.Init == nil || d.f.Init.Moov == nil || d.f.Init.Moov.Mvex == nil {
			return harness.Failf("C05|"+d.api+"|init not recognised", "fragmented %v init %v", d.f.IsFragmented(), d.f.Init != nil)
		}
		if len(d.f.Init.Moov.Traks) != nT {
			return harness.Failf("C05|"+d.api+"|number of tracks differs", "%d traks, %d added", len(d.f.Init.Moov.Traks), nT)
		}
		if fail := checkDecoded(c, b, d.f, d.api, d.f.Init.Moov.Mvex, nFrags, st); fail != nil {
			return fail
		}
	}
	// (3) the media part alone (what a player gets after it has fetched the init segment separately): the moof of the
	// first fragment then starts at offset 0 or right behind styp/free boxes; trex comes from the init decoded before
	if len(p.Boxes) > 2 && nFrags > 0 {
		cut := p.Boxes[2].Offset
		ini, err := mp4.DecodeFile(bytes.NewReader(file[:cut]))
		if err != nil || ini.Init == nil || ini.Init.Moov == nil || ini.Init.Moov.Mvex == nil {
			return harness.Failf("C05|DecodeFile(init alone)|error", "%v", err)
		}
		media := file[cut:]
		g1, err := mp4.DecodeFile(bytes.NewReader(media))
		if err != nil {
			return decErr("DecodeFile(media alone)", err)
		}
		g2, err := mp4.DecodeFileSR(bits.NewFixedSliceReader(media))
		if err != nil {
			return decErr("DecodeFileSR(media alone)", err)
		}
		st.class("read-media-part-alone")
		if fail := checkDecoded(c, b, g1, "DecodeFile(media alone)", ini.Init.Moov.Mvex, nFrags, st); fail != nil {
			return fail
		}
		if fail := checkDecoded(c, b, g2, "DecodeFileSR(media alone)", ini.Init.Moov.Mvex, nFrags, st); fail != nil {
			return fail
		}
	}
	return nil
}

// checkDecoded compares what the library reads from a decoded file with the model: Fragment.GetFullSamples(trex) per
// track over all fragments; for fragments with one traf also GetFullSamples(nil) (the function takes the first traf
// then and has no trex to fall back to, so only when the case does not rely on trex) and, if that traf has one trun,
// GetSampleInterval over the whole run, its first and last sample and its inner part.
func checkDecoded(c *historyCase, b *built, f *mp4.File, api string, mvex *mp4.MvexBox, nFrags int, st *stats) *harness.Fail {
	nT := len(c.Tracks)
	var frags []*mp4.Fragment
	for _, s := range f.Segments {
		for _, fr := range s.Fragments {
			if fr.Moof == nil || fr.Mdat == nil {
				return harness.Failf("C05|"+api+"|fragment without moof or mdat", "fragment %d", len(frags))
			}
			frags = append(frags, fr)
		}
	}
	if len(frags) != nFrags {
		return harness.Failf("C05|"+api+"|number of fragments differs", "%d fragments decoded, %d encoded", len(frags), nFrags)
	}
	for ti := 0; ti < nT; ti++ {
		trex, ok := mvex.GetTrex(uint32(ti + 1))
		if !ok {
			return harness.Failf("C05|"+api+"|no trex for track", "track id %d", ti+1)
		}
		var all []mp4.FullSample
		for k, fr := range frags {
			got, err := fr.GetFullSamples(trex)
			if err != nil {
				return harness.Failf("C05|"+api+"+GetFullSamples|error", "fragment %d track id %d: %v", k, ti+1, err)
			}
			all = append(all, got...)
		}
		if fail := cmpLib(fmt.Sprintf("track index %d", ti), api+"+GetFullSamples", b.model[ti], all); fail != nil {
			return fail
		}
	}
	// per fragment with a single traf
	pos := make([]int, nT)
	k := 0
	for _, s := range b.segs {
		for _, bf := range s.frags {
			fr := frags[k]
			what := fmt.Sprintf("fragment %d", k)
			k++
			var want []modelSample
			if len(bf.tracks) == 1 {
				ti := bf.tracks[0]
				want = b.model[ti][pos[ti] : pos[ti]+bf.perTrack[ti]]
			}
			for _, ti := range bf.tracks {
				pos[ti] += bf.perTrack[ti]
			}
			if len(bf.tracks) != 1 || len(fr.Moof.Trafs) != 1 {
				continue
			}
			ti := bf.tracks[0]
			trex, _ := mvex.GetTrex(uint32(ti + 1))
			if !c.TrexDrop {
				got, err := fr.GetFullSamples(nil)
				if err != nil {
					return harness.Failf("C05|"+api+"+GetFullSamples(nil)|error", "%s: %v", what, err)
				}
				if fail := cmpLib(what, api+"+GetFullSamples(nil)", want, got); fail != nil {
					return fail
				}
				st.class("read-GetFullSamples-without-trex")
			}
			if len(fr.Moof.Traf.Truns) != 1 || len(want) == 0 {
				continue
			}
			n := len(want)
			for _, r := range [][2]int{{1, n}, {1, 1}, {n, n}, {2, n - 1}} {
				if r[0] < 1 || r[1] < r[0] || r[1] > n {
					continue
				}
				si, err := fr.GetSampleInterval(trex, uint32(r[0]), uint32(r[1]))
				if err != nil {
					return harness.Failf("C05|"+api+"+GetSampleInterval|error", "%s samples %d-%d of %d: %v", what, r[0], r[1], n, err)
				}
				w := want[r[0]-1 : r[1]]
				var off, size int
				for _, ms := range want[:r[0]-1] {
					off += len(ms.Data)
				}
				var data []byte
				for _, ms := range w {
					size += len(ms.Data)
					data = append(data, ms.Data...)
				}
				var field string
				switch {
				case len(si.Samples) != len(w):
					field = "number of samples"
				case si.FirstDecodeTime != w[0].Time:
					field = "first decode time"
				case int(si.Size) != size:
					field = "size"
				case int(si.OffsetInMdat) != off:
					field = "offset in mdat"
				case !bytes.Equal(si.Data, data):
					field = "bytes"
				}
				for i := 0; field == "" && i < len(w); i++ {
					g := si.Samples[i]
					if g.Dur != w[i].Dur || int(g.Size) != len(w[i].Data) || g.Flags != w[i].Flags || g.CompositionTimeOffset != w[i].Cto {
						field = "sample values"
					}
				}
				if field != "" {
					return harness.Failf("C05|"+api+"+GetSampleInterval|"+field+" differs", "%s samples %d-%d of %d: got time=%d size=%d offset=%d %d samples data=%s; added time=%d size=%d offset=%d %d samples data=%s",
						what, r[0], r[1], n, si.FirstDecodeTime, si.Size, si.OffsetInMdat, len(si.Samples), harness.HexTrunc(si.Data, 24), w[0].Time, size, off, len(w), harness.HexTrunc(data, 24))
				}
				st.class("read-GetSampleInterval")
			}
		}
	}
	return nil
}

// checkOptimised: what OptimizeTrun promises ("optimize trun box by moving default values to tfhd";
// TrafBox.OptimizeTfhdTrun: "Only look at first trun, even if there is more than one") must have happened to the first
// trun of the first traf when it holds more than one sample: a common duration / size (up to 1024 samples) / flags of
// all samples but the first are in tfhd and not per sample, a differing first sample uses first_sample_flags, and
// composition offsets that are all zero are not written. Read from the encoded bytes with the independent reader.
func checkOptimised(c *historyCase, f *builtFrag, m *fragbuild.PMoof, what string, opt mp4.EncOptimize, st *stats) *harness.Fail {
	r := f.firstRun
	if opt&mp4.OptimizeTrun == 0 || c.TrexDrop || len(r) < 2 || len(m.Trafs) == 0 || len(m.Trafs[0].Truns) == 0 {
		return nil
	}
	tfhd, trun := &m.Trafs[0].Tfhd, &m.Trafs[0].Truns[0]
	if int(trun.SampleCount) != len(r) {
		return nil // counted elsewhere
	}
	sameDur, sameSize, sameFlags, zeroCto := true, true, true, true
	for i, sd := range r {
		sameDur = sameDur && sd.Dur == r[0].Dur
		sameSize = sameSize && sd.Size == r[0].Size
		sameFlags = sameFlags && (i == 0 || sd.Flags == r[1].Flags)
		zeroCto = zeroCto && sd.Cto == 0
	}
	fail := func(rel, format string, a ...interface{}) *harness.Fail {
		return harness.Failf("C05|OptimizeTrun|"+rel, what+": first trun of the first traf, %d samples: "+format, append([]interface{}{len(r)}, a...)...)
	}
	if sameDur {
		if !tfhd.HasDefDur() || tfhd.DefDur != r[0].Dur || trun.HasDur() {
			return fail("common sample duration not moved to tfhd", "all durations %d; tfhd flags %#x default %d, trun flags %#x", r[0].Dur, tfhd.Flags, tfhd.DefDur, trun.Flags)
		}
		st.class("optimisation-asserted:duration")
	}
	if sameSize && len(r) <= 1024 {
		if !tfhd.HasDefSize() || int(tfhd.DefSize) != r[0].Size || trun.HasSize() {
			return fail("common sample size not moved to tfhd", "all sizes %d; tfhd flags %#x default %d, trun flags %#x", r[0].Size, tfhd.Flags, tfhd.DefSize, trun.Flags)
		}
		st.class("optimisation-asserted:size")
	}
	if sameFlags {
		if !tfhd.HasDefFlags() || tfhd.DefFlags != r[1].Flags || trun.HasFlags() {
			return fail("common sample flags not moved to tfhd", "flags %#x from the second sample on; tfhd flags %#x default %#x, trun flags %#x", r[1].Flags, tfhd.Flags, tfhd.DefFlags, trun.Flags)
		}
		if first := r[0].Flags != r[1].Flags; first != trun.HasFirstSampleFlags() || (first && trun.FirstSampleFlags != r[0].Flags) {
			return fail("first_sample_flags not used as promised", "first sample %#x, others %#x; trun flags %#x first_sample_flags %#x", r[0].Flags, r[1].Flags, trun.Flags, trun.FirstSampleFlags)
		}
		st.class("optimisation-asserted:flags")
	}
	if zeroCto {
		if trun.HasCto() {
			return fail("all-zero composition offsets still written", "trun flags %#x", trun.Flags)
		}
		st.class("optimisation-asserted:cto")
	}
	return nil
}

// ---------------------------------------------------------------------------------------------
// generator

var (
	flagPalette  = []uint32{fragbuild.FlagsSync, fragbuild.FlagsNonSync, fragbuild.FlagsNonSync | 0x1234, fragbuild.FlagsSync | 0xffff, 0x00a50000, 0, 0x0fffffff, 0xffffffff}
	durPalette   = []uint32{0, 1, 512, 1024, 3000, 3003, 90000, 1 << 20, 0xffffffff}
	startPalette = []uint64{0, 0, 0, 1, 1000, 0xfffffc00, 0xffffffff, 1 << 32, 1<<32 + 12345, 1 << 40, 0xfffffffffff00000}
	ctoPalette   = []int32{0, 0, 1, -1, 512, 1024, 2048, -1024, -0x80000000, 0x7fffffff}
	sizeGen      = rapid.OneOf(rapid.IntRange(0, 40), rapid.IntRange(0, 40), rapid.SampledFrom([]int{0, 0, 1, 1, 2, 255, 256, 257}), rapid.IntRange(0, 1200))
)

func genExtra(t *rapid.T, kinds []string) extraDef {
	x := extraDef{Kind: rapid.SampledFrom(kinds).Draw(t, "extraKind")}
	if !strings.HasPrefix(x.Kind, "prft") {
		x.Data = rapid.SliceOfN(rapid.Byte(), 0, 10).Draw(t, "extraData")
	}
	return x
}

type base struct {
	s                                sampleDef
	durMode, sizeMode, flagMode, cto int
	n                                int
}

func genSample(t *rapid.T, b *base) sampleDef {
	s := b.s
	s.Seed = rapid.Byte().Draw(t, "seed")
	switch b.durMode { // 0 all equal, 1 mostly equal, 2 palette
	case 1:
		if rapid.IntRange(0, 4).Draw(t, "durOdd") == 0 {
			s.Dur = rapid.SampledFrom(durPalette).Draw(t, "dur")
		}
	case 2:
		s.Dur = rapid.SampledFrom(durPalette).Draw(t, "dur")
	}
	switch b.sizeMode { // 0 all equal, 1 mostly equal, 2 random
	case 1:
		if rapid.IntRange(0, 4).Draw(t, "sizeOdd") == 0 {
			s.Size = sizeGen.Draw(t, "size")
		}
	case 2:
		s.Size = sizeGen.Draw(t, "size")
	}
	switch b.flagMode { // 0 all equal, 1 first differs, 2 palette, 3 mostly equal
	case 1:
		if b.n == 0 {
			s.Flags = rapid.SampledFrom(flagPalette).Draw(t, "firstFlags")
		}
	case 2:
		s.Flags = rapid.SampledFrom(flagPalette).Draw(t, "flags")
	case 3:
		if rapid.IntRange(0, 4).Draw(t, "flagsOdd") == 0 {
			s.Flags = rapid.SampledFrom(flagPalette).Draw(t, "flags")
		}
	}
	switch b.cto { // 0 all zero, 1 same value, 2 palette
	case 0:
		s.Cto = 0
	case 2:
		s.Cto = rapid.SampledFrom(ctoPalette).Draw(t, "cto")
	}
	b.n++
	return s
}

func genBase(t *rapid.T) *base {
	b := &base{}
	b.s.Dur = rapid.SampledFrom(durPalette).Draw(t, "baseDur")
	b.s.Size = sizeGen.Draw(t, "baseSize")
	b.s.Flags = rapid.SampledFrom(flagPalette).Draw(t, "baseFlags")
	b.s.Cto = rapid.SampledFrom(ctoPalette).Draw(t, "baseCto")
	b.durMode = rapid.IntRange(0, 2).Draw(t, "durMode")
	b.sizeMode = rapid.IntRange(0, 2).Draw(t, "sizeMode")
	b.flagMode = rapid.IntRange(0, 3).Draw(t, "flagMode")
	b.cto = rapid.IntRange(0, 2).Draw(t, "ctoMode")
	return b
}

// tail: a low-probability branch (about one case in n; drawn through a byte so that rapid's preference for the bounds
// of an integer range does not make it frequent).
func tail(t *rapid.T, label string, n int) bool {
	return int(rapid.Uint32().Draw(t, label)%uint32(n)) == n-1
}

func genCase(t *rapid.T) historyCase {
	var c historyCase
	nt := rapid.SampledFrom([]int{1, 1, 2, 2, 3, 4}).Draw(t, "ntracks")
	if tail(t, "manyTracks", 40) {
		nt = rapid.SampledFrom([]int{6, 8}).Draw(t, "ntracksTail")
	}
	c.TrexDrop = rapid.IntRange(0, 2).Draw(t, "trexDrop") == 0
	for i := 0; i < nt; i++ {
		td := trackDef{
			Timescale: rapid.SampledFrom([]uint32{1, 1000, 12800, 48000, 90000, 10000000}).Draw(t, "timescale"),
			Media:     rapid.SampledFrom([]string{"video", "audio", "text", "subtitle"}).Draw(t, "media"),
			Start:     rapid.SampledFrom(startPalette).Draw(t, "start"),
		}
		if c.TrexDrop || rapid.Bool().Draw(t, "trexSet") {
			td.TrexDur = rapid.SampledFrom(durPalette).Draw(t, "trexDur")
			td.TrexSize = uint32(sizeGen.Draw(t, "trexSize"))
			td.TrexFlags = rapid.SampledFrom(flagPalette).Draw(t, "trexFlags")
		}
		c.Tracks = append(c.Tracks, td)
	}
	c.SharedSrc = rapid.IntRange(0, 2).Draw(t, "sharedSrc") == 0
	c.SeqStart = rapid.SampledFrom([]uint32{1, 1, 0, 100, 0xfffffff0}).Draw(t, "seqStart")
	c.Encoder = rapid.SampledFrom([]string{"w", "sw", "w", "sw", "w", "sw", "w", "sw", "w", ""}).Draw(t, "encoder") // "": both, on the same history
	topKinds := []string{"prft0", "prft1", "free", "skip", "uuid", "unknown"}
	childKinds := []string{"prft0", "prft1", "free", "skip", "uuid", "unknown", "emsg0", "emsg1"}
	emsgKinds := []string{"emsg0", "emsg1"}
	moofKinds := []string{"free", "skip", "uuid", "unknown", "pssh"} // the first four also inside a traf
	nSeg := rapid.SampledFrom([]int{1, 1, 2, 3}).Draw(t, "nseg")
	for si := 0; si < nSeg; si++ {
		so := op{Kind: "segment", Styp: rapid.Bool().Draw(t, "styp"), Piecewise: rapid.IntRange(0, 3).Draw(t, "piecewise") == 0}
		for n := rapid.SampledFrom([]int{0, 0, 0, 0, 1, 2}).Draw(t, "npre"); n > 0; n-- {
			kinds := topKinds
			if so.Styp {
				// ISO/IEC 14496-12 8.16.5: a prft box follows the segment type / segment index boxes of its
				// segment and precedes the moof it belongs to; in front of a styp it belongs to no fragment
				kinds = topKinds[2:]
			}
			so.Extra = append(so.Extra, genExtra(t, kinds))
		}
		c.Ops = append(c.Ops, so)
		nFrag := rapid.SampledFrom([]int{1, 1, 2, 3}).Draw(t, "nfrag")
		if tail(t, "manyFragments", 40) {
			nFrag = rapid.SampledFrom([]int{5, 8}).Draw(t, "nfragTail")
		}
		for fi := 0; fi < nFrag; fi++ {
			fo := op{Kind: "fragment"}
			fo.LargeMdat = rapid.IntRange(0, 5).Draw(t, "largeMdat") == 0
			if nt > 1 {
				fo.Multi = rapid.IntRange(0, 3).Draw(t, "multi") != 0
			} else {
				fo.Multi = rapid.IntRange(0, 3).Draw(t, "multi1") == 0
			}
			all := make([]int, nt)
			for i := range all {
				all[i] = i
			}
			if fo.Multi {
				perm := all
				if nt > 1 && rapid.Bool().Draw(t, "permute") {
					perm = rapid.Permutation(all).Draw(t, "trackOrder")
				}
				k := rapid.IntRange(1, nt).Draw(t, "nFragTracks")
				if rapid.IntRange(0, 2).Draw(t, "allTracks") != 0 {
					k = nt
				}
				fo.Tracks = append([]int{}, perm[:k]...)
				fo.Mode = rapid.SampledFrom([]string{"full", "full", "meta"}).Draw(t, "mode")
			} else {
				fo.Tracks = []int{rapid.IntRange(0, nt-1).Draw(t, "fragTrack")}
				fo.Mode = rapid.SampledFrom([]string{"full", "full", "meta", "interval"}).Draw(t, "mode")
			}
			c.Ops = append(c.Ops, fo)
			// tracks that get samples in this fragment (possibly none for some, rarely none at all)
			active := fo.Tracks
			if len(fo.Tracks) > 1 && rapid.IntRange(0, 3).Draw(t, "someIdle") == 0 {
				active = nil
				for _, ti := range fo.Tracks {
					if rapid.Bool().Draw(t, "active") {
						active = append(active, ti)
					}
				}
			}
			bases := map[int]*base{}
			for _, ti := range fo.Tracks {
				bases[ti] = genBase(t)
				if c.TrexDrop {
					// values that coincide with the trex defaults of the track, so that something can be dropped
					td := c.Tracks[ti]
					if rapid.Bool().Draw(t, "durFromTrex") {
						bases[ti].s.Dur = td.TrexDur
					}
					if rapid.Bool().Draw(t, "sizeFromTrex") && td.TrexSize <= 1200 {
						bases[ti].s.Size = int(td.TrexSize)
					}
					if rapid.Bool().Draw(t, "flagsFromTrex") {
						bases[ti].s.Flags = td.TrexFlags
					}
				}
			}
			nOps := rapid.SampledFrom([]int{0, 1, 2, 2, 3, 4, 5, 6, 8, 10}).Draw(t, "nops")
			if tail(t, "manyOps", 40) {
				nOps = rapid.SampledFrom([]int{20, 30}).Draw(t, "nopsTail")
			}
			if len(active) == 0 {
				nOps = 0
			}
			// a long run of identical samples (more than 1024 in one trun; everything can be optimised away)
			bulk := rapid.IntRange(0, 99).Draw(t, "bulk") == 0
			if bulk {
				nOps = 0
				ti := fo.Tracks[0]
				sd := genSample(t, bases[ti])
				sd.Size = rapid.SampledFrom([]int{0, 1, 4}).Draw(t, "bulkSize")
				sd.Cto = rapid.SampledFrom([]int32{0, 0, 512}).Draw(t, "bulkCto")
				sd.Rep = rapid.SampledFrom([]int{1022, 1023, 1024, 1030}).Draw(t, "bulkRep")
				if sd.Rep >= 1024 && sd.Cto == 0 && avoidKnown["optimize-over-1024-identical-samples"] && rapid.IntRange(0, 7).Draw(t, "keepKnownDefectClass") != 0 {
					harness.Rec.Exclude("optimize-over-1024-identical-samples (generator)")
					sd.Cto = 512
				}
				kind := map[string]string{"full": "fullTrack", "meta": "metaTrack", "interval": "interval"}[fo.Mode]
				if !fo.Multi && fo.Mode == "meta" {
					kind = rapid.SampledFrom([]string{"metaTrack", "metaMany"}).Draw(t, "bulkKind")
				}
				c.Ops = append(c.Ops, op{Kind: kind, Track: ti, Samples: []sampleDef{sd}})
			}
			childEmsg := false
			stick := rapid.IntRange(0, 3).Draw(t, "stickiness") // how often consecutive additions stay on one track
			cur := 0
			for k := 0; k < nOps; k++ {
				// extras interleaved with the additions
				if rapid.IntRange(0, 9).Draw(t, "addEmsg") == 0 && !childEmsg {
					c.Ops = append(c.Ops, op{Kind: "emsg", Extra: []extraDef{genExtra(t, emsgKinds)}})
				}
				if fo.Mode != "meta" && rapid.IntRange(0, 11).Draw(t, "addChild") == 0 {
					x := genExtra(t, childKinds)
					childEmsg = childEmsg || extraType(x.Kind) == "emsg"
					c.Ops = append(c.Ops, op{Kind: "child", Extra: []extraDef{x}})
				}
				if rapid.IntRange(0, 11).Draw(t, "addMoofChild") == 0 {
					c.Ops = append(c.Ops, op{Kind: "moofChild", Extra: []extraDef{genExtra(t, moofKinds)}})
				}
				if rapid.IntRange(0, 11).Draw(t, "addTrafChild") == 0 {
					c.Ops = append(c.Ops, op{Kind: "trafChild", Track: rapid.SampledFrom(fo.Tracks).Draw(t, "trafOf"), Extra: []extraDef{genExtra(t, moofKinds[:4])}})
				}
				if fo.Mode != "interval" && rapid.IntRange(0, 15).Draw(t, "wrongTrack") == 0 {
					// a track of the init the fragment was not created for, or an id that is in no trak
					var others []int
					for ti := 0; ti <= nt; ti++ {
						in := false
						for _, k := range fo.Tracks {
							in = in || k == ti
						}
						if !in {
							others = append(others, ti)
						}
					}
					if avoidKnown["addsampletotrack-unknown-track"] {
						harness.Rec.Exclude("addsampletotrack-unknown-track (generator)")
					} else {
						c.Ops = append(c.Ops, op{Kind: "wrongTrack", Track: rapid.SampledFrom(others).Draw(t, "otherTrack"),
							Samples: []sampleDef{genSample(t, genBase(t))}})
					}
				}
				if k == 0 || rapid.IntRange(0, stick).Draw(t, "switch") == 0 {
					cur = rapid.IntRange(0, len(active)-1).Draw(t, "which")
				}
				ti := active[cur]
				o := op{Track: ti}
				n := 1
				switch fo.Mode {
				case "full":
					o.Kind = "fullTrack"
					if !fo.Multi && rapid.Bool().Draw(t, "plainFull") {
						o.Kind = "full"
					}
				case "meta":
					o.Kind = "metaTrack"
					if !fo.Multi {
						o.Kind = rapid.SampledFrom([]string{"metaTrack", "meta", "metaMany"}).Draw(t, "metaKind")
					}
					if o.Kind == "metaMany" {
						n = rapid.IntRange(1, 4).Draw(t, "nMany")
					}
				case "interval":
					o.Kind = "interval"
					n = rapid.IntRange(1, 4).Draw(t, "nInterval")
				}
				for ; n > 0; n-- {
					sd := genSample(t, bases[ti])
					if rapid.IntRange(0, 11).Draw(t, "repeat") == 0 {
						sd.Rep = rapid.IntRange(1, 5).Draw(t, "rep")
					}
					o.Samples = append(o.Samples, sd)
				}
				c.Ops = append(c.Ops, o)
			}
			if nOps == 0 && rapid.IntRange(0, 3).Draw(t, "emsgOnEmpty") == 0 {
				c.Ops = append(c.Ops, op{Kind: "emsg", Extra: []extraDef{genExtra(t, emsgKinds)}})
			}
			// a box added to the moof / a traf after all samples (behind the truns)
			if rapid.IntRange(0, 9).Draw(t, "lateMoofChild") == 0 {
				c.Ops = append(c.Ops, op{Kind: "moofChild", Extra: []extraDef{genExtra(t, moofKinds)}})
			}
			if rapid.IntRange(0, 9).Draw(t, "lateTrafChild") == 0 {
				c.Ops = append(c.Ops, op{Kind: "trafChild", Track: rapid.SampledFrom(fo.Tracks).Draw(t, "lateTrafOf"), Extra: []extraDef{genExtra(t, moofKinds[:4])}})
			}
			// known-defect classes (see avoidKnown): kept in one of eight occurrences (the oracle then skips the
			// optimised variants of the case), otherwise steered away from by giving the first track a sample
			firstIdle := true
			for i := len(c.Ops) - 1; i >= 0 && c.Ops[i].Kind != "fragment"; i-- {
				if len(c.Ops[i].Samples) > 0 && c.Ops[i].Track == fo.Tracks[0] {
					firstIdle = false
				}
			}
			name := "optimize-first-traf-without-trun"
			if !fo.Multi {
				name = "optimize-empty-fragment"
			}
			if firstIdle && avoidKnown[name] && rapid.IntRange(0, 7).Draw(t, "keepKnownDefectClass") != 0 {
				harness.Rec.Exclude(name + " (generator)")
				kind := map[string]string{"full": "fullTrack", "meta": "metaTrack", "interval": "interval"}[fo.Mode]
				c.Ops = append(c.Ops, op{Kind: kind, Track: fo.Tracks[0], Samples: []sampleDef{genSample(t, bases[fo.Tracks[0]])}})
			}
		}
	}
	if rapid.IntRange(0, 3).Draw(t, "peeks") == 0 {
		c.EarlyOpt = rapid.Bool().Draw(t, "earlyOpt")
		adds := map[string]bool{"full": true, "fullTrack": true, "meta": true, "metaMany": true, "metaTrack": true, "interval": true}
		var ops []op
		for _, o := range c.Ops {
			ops = append(ops, o)
			if adds[o.Kind] && rapid.IntRange(0, 2).Draw(t, "peekHere") == 0 {
				ops = append(ops, op{Kind: "peek"})
			}
		}
		c.Ops = ops
	}
	return c
}

// classify gives the static evidence classes of a history and whether it is non-trivial apart from
// what optimisation does (which is only known after encoding).
func classify(c *historyCase) (nontrivial bool, classes []string) {
	set := map[string]bool{}
	add := func(cond bool, s string) {
		if cond {
			set[s] = true
		}
	}
	add(true, fmt.Sprintf("tracks-%d", len(c.Tracks)))
	add(c.TrexDrop, "trex-drop-variant")
	add(c.Encoder == "", "both-encoders-on-one-history")
	add(c.Encoder != "sw", "encoder-Encode")
	add(c.Encoder != "w", "encoder-EncodeSW")
	nontrivial = len(c.Tracks) >= 2
	for _, td := range c.Tracks {
		add(td.TrexDur != 0 || td.TrexSize != 0 || td.TrexFlags != 0, "trex-defaults-nonzero")
		add(td.Start >= 1<<32, "start-time-64bit")
		add(td.Start > 0xfffff000 && td.Start < 1<<32, "start-time-near-2^32")
	}
	nSeg := 0
	type fragState struct {
		multi    bool
		tracks   []int
		per      map[int]int
		lastTi   int
		nRuns    map[int]int
		nSamples int
		runs     int
	}
	nFragTotal := 0
	var fs *fragState
	closeFrag := func() {
		if fs == nil {
			return
		}
		add(fs.nSamples == 0, "fragment-without-samples")
		for _, ti := range fs.tracks {
			add(fs.multi && fs.per[ti] == 0 && fs.nSamples > 0, "multi-track-fragment-with-idle-track")
			add(fs.multi && fs.per[ti] == 0 && ti == fs.tracks[0], "first-track-of-fragment-idle")
			if fs.nRuns[ti] >= 2 {
				set["track-with->=2-truns-in-fragment"] = true
				nontrivial = true
			}
			add(fs.nRuns[ti] >= 3, "track-with->=3-truns")
		}
		add(len(fs.nRuns) >= 3 && fs.runs > len(fs.nRuns), "runs-interleaved-over->=3-tracks")
		fs = nil
	}
	nFragInSeg := 0
	for _, o := range c.Ops {
		switch o.Kind {
		case "segment":
			closeFrag()
			add(nFragInSeg >= 2, "segment-with->=2-fragments")
			nFragInSeg = 0
			nSeg++
			add(o.Styp, "segment-with-styp")
			add(!o.Styp, "segment-without-styp")
			add(o.Piecewise, "segment-encoded-fragment-by-fragment")
			add(!o.Piecewise, "segment-encoded-by-MediaSegment")
			if len(o.Extra) > 0 {
				set["extra-box-between-segments"] = true
				nontrivial = true
			}
			for _, x := range o.Extra {
				set["extra:"+extraType(x.Kind)] = true
			}
		case "fragment":
			closeFrag()
			nFragInSeg++
			nFragTotal++
			add(o.Multi && o.Mode == "meta" && len(o.Tracks) >= 2, "mode-meta-multi-track")
			fs = &fragState{multi: o.Multi, tracks: o.Tracks, per: map[int]int{}, nRuns: map[int]int{}, lastTi: -1}
			add(o.LargeMdat, "fragment-mdat-64bit-header")
			add(o.Multi, "fragment-multi-track")
			add(!o.Multi, "fragment-single-track")
			add(o.Multi && len(o.Tracks) == 1, "fragment-multi-track-API-one-track")
			add(len(o.Tracks) < len(c.Tracks) && o.Multi, "fragment-with-subset-of-tracks")
			set["mode-"+o.Mode] = true
		case "emsg":
			set["op-AddEmsg"] = true
			set["extra:emsg"] = true
			nontrivial = true
		case "child":
			set["op-AddChild"] = true
			set["extra:"+extraType(o.Extra[0].Kind)] = true
			nontrivial = true
		case "moofChild":
			set["op-Moof.AddChild"] = true
			set["box-inside-moof:"+extraType(o.Extra[0].Kind)] = true
			nontrivial = true
		case "trafChild":
			set["op-Traf.AddChild"] = true
			set["box-inside-traf:"+extraType(o.Extra[0].Kind)] = true
			nontrivial = true
		case "wrongTrack":
			set["op-add-to-track-not-in-fragment"] = true
		default:
			set["op-"+apiName[o.Kind]] = true
			for _, sd := range o.Samples {
				add(sd.Rep > 0, "sample-repeated")
				add(sd.Rep+1 > 1024, "run-of->1024-identical-samples")
			}
			if fs != nil {
				if fs.lastTi != o.Track {
					fs.nRuns[o.Track]++
					fs.runs++
					fs.lastTi = o.Track
				}
				for _, sd := range o.Samples {
					fs.per[o.Track] += sd.Rep + 1
					fs.nSamples += sd.Rep + 1
				}
			}
			add(len(o.Samples) > 1, "op-with-several-samples")
			for _, s := range o.Samples {
				add(s.Size == 0, "sample-size-0")
				add(s.Size == 1, "sample-size-1")
				add(s.Size > 255, "sample-size->255")
				add(s.Dur == 0, "sample-dur-0")
				add(s.Dur == 0xffffffff, "sample-dur-max")
				add(s.Cto < 0, "sample-cto-negative")
				add(s.Cto == -0x80000000 || s.Cto == 0x7fffffff, "sample-cto-extreme")
			}
		}
	}
	closeFrag()
	add(nFragInSeg >= 2, "segment-with->=2-fragments")
	add(nSeg >= 2, "segments->=2")
	add(nFragTotal >= 5, "fragments->=5")
	add(len(c.Ops) >= 40, "ops->=40")
	for k := range set {
		classes = append(classes, k)
	}
	sort.Strings(classes)
	return nontrivial, classes
}

func TestFragHistories(t *testing.T) {
	harness.RunRapid(t, "histories", func(rt *rapid.T) {
		c := genCase(rt)
		raw, _ := json.Marshal(c)
		var st stats
		f := harness.Guarded(func() *harness.Fail { return evalHistory(&c, &st) })
		nt, classes := classify(&c)
		if st.classes["optimised:some-flag-changed"] || st.classes["optimised:tfhd-default-duration"] ||
			st.classes["optimised:tfhd-default-size"] || st.classes["optimised:tfhd-default-flags"] ||
			st.classes["trex-fallback:duration"] || st.classes["trex-fallback:size"] || st.classes["trex-fallback:flags"] {
			nt = true
		}
		dyn := make([]string, 0, len(st.classes))
		for k := range st.classes {
			dyn = append(dyn, k)
		}
		sort.Strings(dyn)
		classes = append(classes, dyn...)
		harness.Rec.Case(nt, raw, classes...)
		harness.Rec.ClassN("encoded-variants", int64(st.variants))
		if nt && harness.Rec.WantSample() && len(raw) < 3000 {
			harness.Rec.Sample(map[string]interface{}{"kind": "fraghistory", "case": c})
		}
		names := make([]string, 0, len(st.skipped))
		for name := range st.skipped {
			names = append(names, name)
		}
		sort.Strings(names)
		for _, name := range names {
			harness.Rec.Exclude(name)
		}
		harness.Report(rt, "fraghistory", c, f)
	})
}

// ---------------------------------------------------------------------------------------------
// reproducers of the known findings
// (regenerate with VERIF_C05_WRITE_KF=1 go test -tags verif ./props/c05 -run TestWriteKnownFindingRepros)

func knownFindingCases() map[string]historyCase {
	tr := func(n int) []trackDef {
		out := make([]trackDef, n)
		for i := range out {
			out[i] = trackDef{Timescale: 1000, Media: "video"}
		}
		return out
	}
	s := sampleDef{Size: 2, Seed: 0xa0, Dur: 10, Flags: fragbuild.FlagsSync}
	return map[string]historyCase{
		"optimize-first-traf-without-trun": {Tracks: tr(2), SeqStart: 1, NoAvoid: true, Ops: []op{
			{Kind: "segment", Styp: true},
			{Kind: "fragment", Multi: true, Tracks: []int{0, 1}, Mode: "full"},
			{Kind: "fullTrack", Track: 1, Samples: []sampleDef{s}},
		}},
		"optimize-empty-fragment": {Tracks: tr(1), SeqStart: 1, NoAvoid: true, Ops: []op{
			{Kind: "segment", Styp: true},
			{Kind: "fragment", Tracks: []int{0}, Mode: "full"},
		}},
		"optimize-over-1024-identical-samples": {Tracks: tr(1), SeqStart: 1, NoAvoid: true, Ops: []op{
			{Kind: "segment", Styp: true},
			{Kind: "fragment", Tracks: []int{0}, Mode: "full"},
			{Kind: "full", Samples: []sampleDef{{Size: 1, Seed: 0xa0, Dur: 10, Flags: fragbuild.FlagsSync, Rep: 1024}}},
		}},
		"addsampletotrack-unknown-track": {Tracks: tr(2), SeqStart: 1, NoAvoid: true, Ops: []op{
			{Kind: "segment", Styp: true},
			{Kind: "fragment", Multi: true, Tracks: []int{0}, Mode: "meta"},
			{Kind: "wrongTrack", Track: 1, Samples: []sampleDef{s}},
		}},
	}
}

func TestWriteKnownFindingRepros(t *testing.T) {
	if os.Getenv("VERIF_C05_WRITE_KF") == "" {
		t.Skip("VERIF_C05_WRITE_KF not set")
	}
	dir := harness.E.VerifDir + "/replay/C05"
	if err := os.MkdirAll(dir, 0o755); err != nil {
		t.Fatal(err)
	}
	for name, c := range knownFindingCases() {
		c := c
		f := harness.Guarded(func() *harness.Fail { return checkHistory(c) })
		if f == nil {
			t.Errorf("%s: the case does not fail (defect repaired?)", name)
			continue
		}
		raw, _ := json.Marshal(c)
		msg := f.Msg
		if i := strings.Index(msg, "\n"); i > 0 {
			msg = msg[:i]
		}
		b, _ := json.MarshalIndent(harness.ReplayFile{Property: "C05", Kind: "fraghistory", Key: f.Key, Msg: msg, Case: raw}, "", " ")
		if err := os.WriteFile(dir+"/kf-"+name+".json", append(b, '\n'), 0o644); err != nil {
			t.Fatal(err)
		}
		t.Logf("%s: %s", name, f.Key)
	}
}
