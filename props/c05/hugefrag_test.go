package c05

// Leg "hugefrag": fragments whose media data is not in memory (metadata-only samples: AddSample / AddSamples, the
// caller writes the data behind the encoded mdat header) and whose payload sits on the 2^32 boundary: the largest
// payloads that still fit the 32-bit size field, the first ones that need the 64-bit form, and beyond. Nothing of
// that size is materialised: what Encode / EncodeSW write is moof + mdat header, and that is what is judged, with
// the bytes located by the independent walker:
//   - the mdat header has the 64-bit form exactly when the payload needs it (or Mdat.LargeSize was set), and its
//     size field is header + sum of the sample sizes;
//   - the trun data_offset (default-base-is-moof) is len(moof) + len(mdat header): the first sample starts right
//     behind the header the caller is about to write the data after;
//   - Fragment.Size() / MediaSegment.Size() are what was written plus the payload, before and after encoding;
//   - the samples (size, duration, flags, composition offset) read from the encoded moof by the independent
//     reader are the ones that were added, and a lazy decode of the virtual file (init + encoded bytes + filler)
//     puts the mdat payload where the trun points.

import (
	"bytes"
	"encoding/binary"
	"encoding/json"
	"fmt"
	"io"
	"testing"

	"github.com/Eyevinn/mp4ff/bits"
	"github.com/Eyevinn/mp4ff/mp4"
	"pgregory.net/rapid"

	"verif/internal/harness"
	"verif/internal/mp4build"
)

type hugeFragCase struct {
	Sizes     []uint32 `json:"sizes"`
	Durs      []uint32 `json:"durs"`
	Many      bool     `json:"many,omitempty"`      // AddSamples with the whole list instead of AddSample per sample
	LargeSize bool     `json:"largeSize,omitempty"` // Mdat.LargeSize set by the caller
	PreSize   int      `json:"preSize,omitempty"`   // 1: Fragment.Size() before encoding, 2: Mdat.Size(), 3: MediaSegment.Size()
	SW        bool     `json:"sw,omitempty"`
	Optimize  bool     `json:"optimize,omitempty"`
	Styp      bool     `json:"styp,omitempty"`
	Start     uint64   `json:"start"`
}

func init() { harness.RegisterReplay("hugefrag", harness.Replayer(checkHugeFrag)) }

// sparse serves prefix followed by n filler bytes.
type sparse struct {
	prefix []byte
	n      uint64
	pos    int64
	served int64
}

func (s *sparse) size() int64 { return int64(len(s.prefix)) + int64(s.n) }
func (s *sparse) Read(p []byte) (int, error) {
	if s.pos >= s.size() {
		return 0, io.EOF
	}
	k := len(p)
	if rem := s.size() - s.pos; int64(k) > rem {
		k = int(rem)
	}
	if s.served+int64(k) > 64<<20 {
		return 0, fmt.Errorf("sparse file: the media data is being read through")
	}
	for i := 0; i < k; i++ {
		if o := s.pos + int64(i); o < int64(len(s.prefix)) {
			p[i] = s.prefix[o]
		} else {
			p[i] = byte(o * 131)
		}
	}
	s.pos += int64(k)
	s.served += int64(k)
	return k, nil
}
func (s *sparse) Seek(off int64, whence int) (int64, error) {
	switch whence {
	case io.SeekCurrent:
		off += s.pos
	case io.SeekEnd:
		off += s.size()
	}
	if off < 0 {
		return 0, fmt.Errorf("sparse file: negative position")
	}
	s.pos = off
	return off, nil
}

func checkHugeFrag(c hugeFragCase) *harness.Fail {
	n := len(c.Sizes)
	if n == 0 || n > 64 || len(c.Durs) != n {
		return bad("hugefrag: %d sizes, %d durations", n, len(c.Durs))
	}
	var total uint64
	for _, s := range c.Sizes {
		total += uint64(s)
	}
	init := mp4.CreateEmptyInit()
	init.AddEmptyTrack(90000, "video", "und")
	frag, err := mp4.CreateFragment(7, 1)
	if err != nil {
		return harness.Failf("C05|CreateFragment|error", "%v", err)
	}
	seg := mp4.NewMediaSegmentWithoutStyp()
	if c.Styp {
		seg = mp4.NewMediaSegment()
	}
	seg.AddFragment(frag)
	if c.LargeSize {
		frag.Mdat.LargeSize = true
	}
	var ss []mp4.Sample
	for i := range c.Sizes {
		ss = append(ss, mp4.Sample{Flags: 0x02000000 >> uint(i&1), Dur: c.Durs[i], Size: c.Sizes[i], CompositionTimeOffset: int32(i * 3)})
	}
	if c.Many {
		frag.AddSamples(append([]mp4.Sample(nil), ss...), c.Start)
	} else {
		t := c.Start
		for _, s := range ss {
			frag.AddSample(s, t)
			t += uint64(s.Dur)
		}
	}
	if c.Optimize {
		seg.EncOptimize = mp4.OptimizeTrun
		frag.EncOptimize = mp4.OptimizeTrun
	}
	desc := func() string {
		return fmt.Sprintf("%d metadata-only samples, payload %d bytes (2^32%+d), LargeSize set by the caller: %v, pre-call %d, SliceWriter %v, optimise %v", n, total, int64(total)-(1<<32), c.LargeSize, c.PreSize, c.SW, c.Optimize)
	}
	wantHdr := uint64(8)
	if c.LargeSize || total+8 > 0xffffffff {
		wantHdr = 16
	}
	var preSize uint64
	switch c.PreSize {
	case 1:
		preSize = frag.Size()
	case 2:
		_ = frag.Mdat.Size()
	case 3:
		preSize = seg.Size()
	}
	var out []byte
	if c.SW {
		sw := bits.NewFixedSliceWriter(1 << 16)
		if err := seg.EncodeSW(sw); err != nil {
			return harness.Failf("C05|MediaSegment.EncodeSW|error", "%v; %s", err, desc())
		}
		out = append(out, sw.Bytes()...)
	} else {
		var w bytes.Buffer
		if err := seg.Encode(&w); err != nil {
			return harness.Failf("C05|MediaSegment.Encode|error", "%v; %s", err, desc())
		}
		out = w.Bytes()
	}
	enc := "Encode"
	if c.SW {
		enc = "EncodeSW"
	}
	// locate styp? moof mdat-header by size fields
	pos := 0
	if c.Styp {
		if len(out) < 8 || string(out[4:8]) != "styp" {
			return harness.Failf("C05|"+enc+"|lazy fragment: styp missing", "%x; %s", head(out), desc())
		}
		pos = int(binary.BigEndian.Uint32(out))
	}
	if len(out) < pos+8 || string(out[pos+4:pos+8]) != "moof" {
		return harness.Failf("C05|"+enc+"|lazy fragment: moof missing", "%x; %s", head(out), desc())
	}
	moofStart := pos
	moofSize := int(binary.BigEndian.Uint32(out[pos:]))
	pos += moofSize
	if len(out) < pos+8 || string(out[pos+4:pos+8]) != "mdat" {
		return harness.Failf("C05|"+enc+"|lazy fragment: mdat header missing behind the moof", "%x; %s", head(out), desc())
	}
	hdr := uint64(len(out) - pos)
	var mdatSize uint64
	switch {
	case hdr == 8 && binary.BigEndian.Uint32(out[pos:]) != 1:
		mdatSize = uint64(binary.BigEndian.Uint32(out[pos:]))
	case hdr == 16 && binary.BigEndian.Uint32(out[pos:]) == 1:
		mdatSize = binary.BigEndian.Uint64(out[pos+8:])
	default:
		return harness.Failf("C05|"+enc+"|lazy fragment: what follows the moof is not exactly one mdat header", "%d bytes behind the moof: %x; %s", hdr, out[pos:], desc())
	}
	if hdr != wantHdr {
		return harness.Failf("C05|"+enc+"|lazy fragment: mdat header form does not fit the payload", "header of %d bytes, expected %d; %s", hdr, wantHdr, desc())
	}
	if mdatSize != hdr+total {
		return harness.Failf("C05|"+enc+"|lazy fragment: mdat size field is not header + payload", "size field %d, header %d + payload %d; %s", mdatSize, hdr, total, desc())
	}
	// the trun of the encoded moof (one traf, one trun; default-base-is-moof is what CreateFragment sets up)
	truns := mp4build.FindPath(out[moofStart:moofStart+moofSize], "moof", "traf", "trun")
	tfhds := mp4build.FindPath(out[moofStart:moofStart+moofSize], "moof", "traf", "tfhd")
	if len(truns) != 1 || len(tfhds) != 1 {
		return harness.Failf("C05|"+enc+"|lazy fragment: moof layout", "%d trun, %d tfhd boxes; %s", len(truns), len(tfhds), desc())
	}
	tp := truns[0].Payload
	tflags := binary.BigEndian.Uint32(tp) & 0xffffff
	if tflags&1 == 0 || len(tp) < 12 {
		return harness.Failf("C05|"+enc+"|lazy fragment: trun without data offset", "flags %06x; %s", tflags, desc())
	}
	if cnt := binary.BigEndian.Uint32(tp[4:]); int(cnt) != n {
		return harness.Failf("C05|"+enc+"|lazy fragment: sample count differs", "trun has %d, %d were added; %s", cnt, n, desc())
	}
	hflags := binary.BigEndian.Uint32(tfhds[0].Payload) & 0xffffff
	if hflags&0x020000 == 0 || hflags&1 != 0 {
		return harness.Failf("C05|"+enc+"|lazy fragment: tfhd base", "tfhd flags %06x (expected default-base-is-moof as CreateFragment sets it); %s", hflags, desc())
	}
	dataOffset := int64(int32(binary.BigEndian.Uint32(tp[8:])))
	if dataOffset != int64(moofSize)+int64(hdr) {
		return harness.Failf("C05|"+enc+"|lazy fragment: trun data offset does not lead to the first byte behind the mdat header", "data_offset %d, moof %d + mdat header %d = %d; %s", dataOffset, moofSize, hdr, int64(moofSize)+int64(hdr), desc())
	}
	// sizes
	if got := frag.Size(); got != uint64(moofSize)+hdr+total {
		return harness.Failf("C05|Fragment.Size|lazy fragment: not what was written plus the payload", "Size() %d, moof %d + header %d + payload %d; %s", got, moofSize, hdr, total, desc())
	}
	if got := seg.Size(); got != uint64(len(out))+total {
		return harness.Failf("C05|MediaSegment.Size|lazy fragment: not what was written plus the payload", "Size() %d, written %d + payload %d; %s", got, len(out), total, desc())
	}
	if c.PreSize == 1 && !c.Optimize && preSize != uint64(moofSize)+hdr+total {
		return harness.Failf("C05|Fragment.Size|lazy fragment: size before encoding differs from what is written", "Size() before %d, moof %d + header %d + payload %d; %s", preSize, moofSize, hdr, total, desc())
	}
	if c.PreSize == 3 && !c.Optimize && preSize != uint64(len(out))+total {
		return harness.Failf("C05|MediaSegment.Size|lazy fragment: size before encoding differs from what is written", "Size() before %d, written %d + payload %d; %s", preSize, len(out), total, desc())
	}
	// read back: lazy decode of init + encoded bytes + filler
	var ib bytes.Buffer
	if err := init.Encode(&ib); err != nil {
		return harness.Failf("C05|InitSegment.Encode|error", "%v", err)
	}
	sp := &sparse{prefix: append(ib.Bytes(), out...), n: total}
	f, err := mp4.DecodeFile(sp, mp4.WithDecodeMode(mp4.DecModeLazyMdat))
	if err != nil {
		return harness.Failf("C05|DecodeFile(lazy)|error on the written fragment", "%v; %s", err, desc())
	}
	if len(f.Segments) != 1 || len(f.Segments[0].Fragments) != 1 {
		return harness.Failf("C05|DecodeFile(lazy)|segments", "%d segments; %s", len(f.Segments), desc())
	}
	df := f.Segments[0].Fragments[0]
	if df.Mdat == nil || df.Moof == nil || df.Moof.Traf == nil || df.Moof.Traf.Trun == nil {
		return harness.Failf("C05|DecodeFile(lazy)|fragment incomplete", "%s", desc())
	}
	wantPayload := uint64(ib.Len()) + uint64(moofStart) + uint64(dataOffset)
	if got := df.Mdat.PayloadAbsoluteOffset(); got != wantPayload {
		return harness.Failf("C05|DecodeFile(lazy)|the first sample (moof start + data offset) is not the first payload byte of the mdat", "mdat payload at %d, trun points at %d; %s", got, wantPayload, desc())
	}
	if got := df.Mdat.GetLazyDataSize(); got != total && total > 0 {
		return harness.Failf("C05|DecodeFile(lazy)|mdat payload size differs from the samples", "lazy data size %d, samples %d; %s", got, total, desc())
	}
	tr := df.Moof.Traf.Trun
	tr.AddSampleDefaultValues(df.Moof.Traf.Tfhd, f.Init.Moov.Mvex.Trex)
	got := tr.GetSamples()
	if len(got) != n {
		return harness.Failf("C05|DecodeFile(lazy)|number of samples differs", "%d, added %d; %s", len(got), n, desc())
	}
	for i := range got {
		if got[i] != ss[i] {
			return harness.Failf("C05|DecodeFile(lazy)|sample metadata differs", "sample %d: %+v, added %+v; %s", i, got[i], ss[i], desc())
		}
	}
	if bt := df.Moof.Traf.Tfdt.BaseMediaDecodeTime(); bt != c.Start {
		return harness.Failf("C05|DecodeFile(lazy)|decode time differs", "tfdt %d, first sample was added at %d; %s", bt, c.Start, desc())
	}
	return nil
}

func head(b []byte) []byte {
	if len(b) > 48 {
		return b[:48]
	}
	return b
}

func genHugeFrag(t *rapid.T) hugeFragCase {
	var c hugeFragCase
	n := rapid.IntRange(1, 6).Draw(t, "n")
	const max32 = uint64(0xffffffff)
	var target uint64
	d := uint64(rapid.IntRange(0, 20).Draw(t, "delta"))
	switch rapid.IntRange(0, 5).Draw(t, "sizeKind") {
	case 0:
		target = max32 - 8 - d // the largest payloads of the 32-bit form
	case 1:
		target = max32 - 8 + 1 + d // the first ones that need the 64-bit form
	case 2:
		target = (1 << 31) - 8 + d
	case 3:
		target = uint64(n) * max32 // every sample as large as the field allows
	case 4:
		target = uint64(rapid.Uint32().Draw(t, "any"))
	default:
		target = uint64(rapid.IntRange(0, 5000).Draw(t, "small"))
	}
	if target > uint64(n)*max32 {
		target = uint64(n) * max32
	}
	// split target into n sizes
	rem := target
	for i := 0; i < n; i++ {
		var s uint64
		if i == n-1 {
			s = rem
		} else {
			hi := rem
			if hi > max32 {
				hi = max32
			}
			s = rapid.Uint64Range(0, hi).Draw(t, "size")
			if rest := uint64(n-1-i) * max32; rem-s > rest {
				s = rem - rest
			}
		}
		if s > max32 {
			s = max32
		}
		c.Sizes = append(c.Sizes, uint32(s))
		rem -= s
		c.Durs = append(c.Durs, rapid.SampledFrom([]uint32{1, 1000, 3000, 3000}).Draw(t, "dur"))
	}
	c.Many = rapid.Bool().Draw(t, "many")
	c.LargeSize = rapid.IntRange(0, 4).Draw(t, "largeSize") == 0
	c.PreSize = rapid.IntRange(0, 3).Draw(t, "preSize")
	c.SW = rapid.Bool().Draw(t, "sw")
	c.Optimize = rapid.Bool().Draw(t, "optimize")
	c.Styp = rapid.Bool().Draw(t, "styp")
	c.Start = rapid.SampledFrom([]uint64{0, 90000, 1 << 32, 1<<32 - 1}).Draw(t, "start")
	return c
}

func TestHugeFragments(t *testing.T) {
	harness.RunRapid(t, "hugefrag", func(rt *rapid.T) {
		c := genHugeFrag(rt)
		raw, _ := json.Marshal(c)
		var total uint64
		for _, s := range c.Sizes {
			total += uint64(s)
		}
		cl := []string{"hugefrag"}
		switch {
		case total+8 > 0xffffffff:
			cl = append(cl, "hugefrag:payload-needs-64-bit-size")
		case total+16 > 0xffffffff:
			cl = append(cl, "hugefrag:payload-in-the-last-8-bytes-of-the-32-bit-form")
		case total >= 1<<31:
			cl = append(cl, "hugefrag:payload-above-2^31")
		default:
			cl = append(cl, "hugefrag:payload-below-2^31")
		}
		cl = append(cl, fmt.Sprintf("hugefrag:pre-call-%d", c.PreSize))
		harness.Rec.Case(total >= 1<<31, raw, cl...)
		if harness.Rec.WantSample() {
			harness.Rec.Sample(map[string]interface{}{"kind": "hugefrag", "case": c})
		}
		f := harness.Guarded(func() *harness.Fail { return checkHugeFrag(c) })
		harness.Report(rt, "hugefrag", c, f)
	})
}
